"""Call dispatch: builtins, methods of model values, repository functions
(contract application or inlining), constructors, struct_parse."""
import ast
import re
import builtins
import importlib
import inspect
import io
import os
import pkgutil
import z3

from . import extract, bitops
from .ctx import PathEnd, Unsupported, PyExc, ReturnEx
from .interp import Frame, _MISSING, FloatDiv, exc_subclass, EXC_CLASSES
from .models import (DataModels, SymRange, CountIter, Enumerated, Zipped, zmin, zmax, line_of, InfLen)
from .vals import (is_sym, is_intlike, is_boollike, is_strlike, to_int, to_bool, to_str,
                   zand, zor, znot, zite, Code, SBytes, SStream, SRec, SObj, SList, SDict,
                   SFunc, BoundMethod, StructRef, Opaque, SGen, IntS, BoolS, StrS, ArrS)

REPO = extract.REPO


class Layout:
    """abstract meaning of a struct for K1: field shapes + size.
    fields: dict name -> Shape (nested Rec allowed)
    size:   None (variable), int, or callable(owner SObj) -> int/term
    The link to the real construct tree is the K2 obligation of the same name."""

    def __init__(self, name, fields, size=None, minsize=None, nf=None):
        self.name, self.fields, self.size, self.minsize, self.nf = name, fields, size, minsize, nf


LAYOUTS = {}


def register_layout(lay):
    LAYOUTS[lay.name] = lay


class UFMaker:
    """shape maker whose leaves are uninterpreted functions of (array, position)"""

    def __init__(self, ctx, arr, pos, prefix):
        self.ctx, self.arr, self.pos, self.prefix = ctx, arr, pos, prefix
        self.uf_args = (arr, to_int(pos))

    def fname(self, name):
        return name

    def const(self, name, sort):
        return z3.Function(name, ArrS, IntS, sort)(self.arr, to_int(self.pos))

    def assume(self, c):
        self.ctx.assume(c)

    def byte_array(self, arr):
        self.ctx.byte_arrays.append(arr)

    def branch(self, c):
        return self.ctx.branch(c)

    def current(self):
        return self


class Calls(DataModels):
    def __init__(self, registry):
        self.registry = registry
        self._classes = None
        self.spec_modules = []

    # ------------------------------------------------------------ class index
    def class_index(self):
        if self._classes is None:
            import elftools
            idx = {}
            for m in pkgutil.walk_packages(elftools.__path__, 'elftools.'):
                try:
                    mod = importlib.import_module(m.name)
                except Exception:
                    continue
                for n, v in vars(mod).items():
                    if isinstance(v, type) and v.__module__ == mod.__name__:
                        idx.setdefault(n, v)
            self._classes = idx
        return self._classes

    def real_class(self, name):
        return self.class_index().get(name)

    def func_key(self, f):
        """(relpath, qualname) of a real repository function"""
        f = inspect.unwrap(f) if callable(f) else f
        code = getattr(f, '__code__', None)
        if code is None:
            return None
        fn = code.co_filename
        if not fn.startswith(REPO + '/'):
            return None
        rel, q = os.path.relpath(fn, REPO), f.__qualname__
        if q.endswith('<lambda>'):
            # lambdas are named by their ordinal among the lambdas of the enclosing scope
            # (source order), found through the line the code object starts at
            outer = q[:-len('<lambda>')].rstrip('.').replace('.<locals>', '')
            try:
                scope = extract.find(rel, outer) if outer else extract.load(rel)[1]
            except extract.ExtractError:
                return (rel, q)
            lams = sorted([n for n in ast.walk(scope) if isinstance(n, ast.Lambda)],
                          key=lambda n: (n.lineno, n.col_offset))
            hits = [i for i, n in enumerate(lams) if n.lineno == code.co_firstlineno]
            if len(hits) == 1:
                return (rel, (outer + '.' if outer else '') + '<lambda>%d' % hits[0])
        return (rel, q)

    # --------------------------------------------------------------- dispatch
    def call(self, I, func, args, kw, node, fr):
        ln = line_of(node)
        if isinstance(func, SFunc):
            return I.call_sfunc(func, args, kw, node)
        if isinstance(func, BoundMethod):
            return self.call_method(I, func.obj, func.name, args, kw, node, fr)
        if isinstance(func, SpecFn):
            return func(I, *args, **kw)
        if isinstance(func, StructRef):
            r = StructRef(func.name, func.owner)
            r.instance = True
            r.kw = dict(kw)
            if args and isinstance(args[0], str):
                r.field_name = args[0]           # field factory applied to a member name
            return r
        if func is None:
            raise PyExc('TypeError', ln, 'None is not callable')
        from .vals import AbstractParser
        if isinstance(func, AbstractParser):
            st = args[0]
            if not isinstance(st, SStream) or len(args) != 1:
                raise Unsupported('abstract parser applied to %r' % (args,))
            p0 = to_int(st.pos)
            end = z3.Function(func.table + '.end', ArrS, IntS, IntS, IntS)(st.arr, p0, func.key)
            ok = z3.Function(func.table + '.ok', ArrS, IntS, IntS, IntS, BoolS)(st.arr, to_int(st.length), p0, func.key)
            if not I.ctx.branch(ok):
                raise PyExc('ELFParseError', ln, 'operand parser of key %s fails' % func.key)
            I.ctx.assume(z3.And(end >= p0, end <= to_int(st.length)))
            st.pos = end
            I.assumptions.add('entries of the dispatch table %s are abstract operand parsers (end/args functions of bytes, position, key); '
                              'the real entries are decided by the table-conformance obligations' % func.table)
            return z3.Function(func.table + '.args', ArrS, IntS, IntS, IntS)(st.arr, p0, func.key)       # abstract handle of the operand list
        if isinstance(func, Opaque):
            raise Unsupported('call of opaque %s (line %s)' % (func.what, ln))
        name = getattr(func, '__name__', None)
        if getattr(func, '__self__', None) is int and name == 'from_bytes':
            return _b_from_bytes(self, I, args, kw, node)
        if func in _BUILTIN_TABLE:
            return _BUILTIN_TABLE[func](self, I, args, kw, node)
        if isinstance(func, type):
            from .vals import DynStruct, DynSwitch
            if func.__module__ == 'elftools.construct.core' and func.__name__ == 'Struct' and args and isinstance(args[0], str) and \
                    any(isinstance(a, (StructRef, DynStruct, DynSwitch)) for a in args[1:]):
                for a in args[1:]:
                    if not isinstance(a, (StructRef, DynStruct, DynSwitch)) or getattr(a, 'field_name', None) is None:
                        raise Unsupported('Struct member %r' % (a,))
                return DynStruct(args[0], list(args[1:]))
            if func.__module__ == 'elftools.construct.core' and func.__name__ == 'Switch' and len(args) == 3 and isinstance(args[2], dict) \
                    and not kw and all(isinstance(v, (StructRef, DynStruct)) for v in args[2].values()):
                return DynSwitch(args[0], args[1], args[2])
            try:
                from elftools.construct.core import Construct
                if issubclass(func, Construct) and all(isinstance(a, (str, bytes, int, type(None)))
                                                       for a in list(args) + list(kw.values())):
                    return func(*args, **kw)
            except ImportError:
                pass
            return self.construct(I, func, args, kw, node)
        mod = getattr(func, '__module__', None)
        if mod in ('specs',) or (mod or '').startswith('specs.'):
            return self.call_spec(I, func, args, kw, node)
        key = self.func_key(func)
        if key is not None:
            if key == ('elftools/common/utils.py', 'struct_parse') and not (key in self.registry and self.registry[key].inline):
                return self.struct_parse(I, args, kw, node)
            if key == ('elftools/construct/macros.py', 'Array') and len(args) == 2 and isinstance(args[1], StructRef):
                r = StructRef('Array', None)
                r.array = (args[0], args[1])
                return r
            if key[0].startswith('elftools/construct/') and key not in self.registry and \
                    all(isinstance(a, (str, bytes, int, type(None))) for a in list(args) + list(kw.values())):
                # construct factory macros with concrete arguments build a real construct object
                return func(*args, **kw)
            return self.call_repo(I, key, func, args, kw, node)
        if I.pure and callable(func):
            try:
                return func(*args, **kw)
            except Exception as e:
                raise Unsupported('native call %s failed: %s' % (name, e))
        raise Unsupported('call of %r (line %s)' % (func, ln))

    def call_repo_function(self, I, f, args, kw, node):
        key = self.func_key(f)
        return self.call_repo(I, key, f, args, kw, node)

    def call_repo(self, I, key, func, args, kw, node):
        c = self.registry.get(key)
        if c is None:
            # a repository function without a contract (a helper a refactoring extracted): executed in place from its real
            # body, like a callee declared `inline`; its loops have no invariants, so a loop in it is still unsupported
            class _Auto:
                relpath, qualname, loops, inline = key[0], key[1], {}, True
            try:
                extract.find(key[0], key[1])
            except Exception:
                raise Unsupported('no contract for callee %s:%s (line %s)' % (key[0], key[1], line_of(node)))
            I.assumptions.add('callee without a contract executed in place from its real body: %s:%s' % key)
            return self.inline_repo(I, _Auto, args, kw, node)
        if c.inline:
            return self.inline_repo(I, c, args, kw, node)
        return self.apply_contract(I, c, args, kw, node)

    def inline_repo(self, I, c, args, kw, node):
        fn = extract.find(c.relpath, c.qualname)
        mod = importlib.import_module(extract.module_name(c.relpath))
        import ast as _ast
        if any(isinstance(n, (_ast.Yield, _ast.YieldFrom)) for n in _ast.walk(fn)):
            # an inlined generator: only applied to concrete values, on which the real function itself is run
            if '.' not in c.qualname and not kw and all(isinstance(a, (bytes, str, int, tuple)) for a in args):
                return list(getattr(mod, c.qualname)(*args))
            raise Unsupported('inlined generator %s applied to symbolic arguments' % c.qualname)
        sf = SFunc(fn, None, c.qualname, mod)
        # loop specs of an inlined callee are looked up under its own contract
        saved = (I.loop_specs, I.loop_ordinals)
        I.loop_specs = {('%s#%s' % (c.qualname, k)): v for k, v in c.loops.items()}
        ords = dict(saved[1])
        for i, l in enumerate(extract.loops_of(fn)):
            ords[id(l)] = '%s#%d' % (c.qualname, i)
        merged = dict(saved[0])
        merged.update(I.loop_specs)
        I.loop_specs, I.loop_ordinals = merged, ords
        try:
            return I.call_sfunc(sf, args, kw, node)
        finally:
            I.loop_specs, I.loop_ordinals = saved

    # ---------------------------------------------------------------- methods
    def call_method(self, I, obj, name, args, kw, node, fr):
        ln = line_of(node)
        from .interp import SuperProxy
        if isinstance(obj, SuperProxy):
            return self.call_obj_method(I, obj.obj, name, args, kw, node, after=obj.clsname)
        from .vals import SOpt
        if isinstance(obj, SOpt):
            if not I.pure and I.ctx.branch(obj.isnone):
                raise PyExc('AttributeError', ln, 'None.%s' % name)
            return self.call_method(I, obj.val, name, args, kw, node, fr)
        if obj is None:
            raise PyExc('AttributeError', ln, 'None.%s' % name)
        if isinstance(obj, SStream):
            if name == 'read':
                return self.stream_read(I, obj, args[0] if args else None, ln)
            if name == 'seek':
                return self.stream_seek(I, obj, args[0], args[1] if len(args) > 1 else kw.get('whence', 0), ln)
            if name == 'tell':
                return obj.pos
            if name == 'write':
                return self.stream_write(I, obj, args[0], ln)
            if name == 'close':
                obj.closed = True
                return None
            if name == 'getvalue':
                return SBytes(obj.arr, 0, obj.length)
            raise Unsupported('stream.%s' % name)
        from .vals import FormParser
        if isinstance(obj, FormParser) and name == 'parse_stream':
            return self.parse_at(I, obj, args[0], ln, exc='ConstructError')
        if isinstance(obj, _struct_mod.Struct) and name == 'unpack':
            return _b_struct_unpack(self, I, [obj.format, args[0]], {}, node)
        if isinstance(obj, SObj):
            if name in obj.attrs:
                return self.call(I, obj.attrs[name], args, kw, node, fr)
            if getattr(obj, 'is_structs', False) and self.class_has(obj.cls, name) is False:
                return self.call(I, StructRef(name, obj), args, kw, node, fr)
            return self.call_obj_method(I, obj, name, args, kw, node)
        if isinstance(obj, SRec):
            if name == 'get':
                k = args[0]
                if isinstance(k, str):
                    return obj.fields.get(k, args[1] if len(args) > 1 else None)
                raise Unsupported('record.get with symbolic key')
            if name in ('copy', '__copy__'):
                return SRec(dict(obj.fields), obj.kind, obj.tag, obj.present)
            if name == 'keys':
                return list(obj.fields.keys())
            if name == 'items':
                return list(obj.fields.items())
            if name == 'values':
                return list(obj.fields.values())
            if name == 'update':
                src = args[0]
                obj.fields.update(src.fields if isinstance(src, SRec) else src)
                return None
            if name in obj.fields:
                return self.call(I, obj.fields[name], args, kw, node, fr)
            raise Unsupported('record.%s' % name)
        from .vals import DynStruct as _DS
        if isinstance(obj, _DS) and name == 'parse_stream':
            return self.parse_at(I, obj, args[0], ln, exc='ConstructError')
        if isinstance(obj, StructRef):
            if name == 'sizeof':
                lay = LAYOUTS.get(obj.name)
                if lay is None or lay.size is None:
                    raise Unsupported('sizeof of variable layout %s' % obj.name)
                return lay.size(obj.owner) if callable(lay.size) else lay.size
            if name == 'parse_stream':
                return self.parse_at(I, obj, args[0], ln, exc='ConstructError')
            if name == 'parse':
                return self.parse_bytes(I, obj, args[0], ln)
            if name == 'build_stream':
                return self.build_at(I, obj, args[0], args[1], ln)
            raise Unsupported('struct.%s' % name)
        if isinstance(obj, (SBytes, bytes)):
            return self.bytes_method(I, obj, name, args, kw, node)
        if isinstance(obj, ZlibObj):
            if name == 'decompress' and isinstance(args[0], ZlibTail):
                # decompress(<the same object's unconsumed_tail>, m): the stream continues where the previous call stopped
                if args[0].obj is not obj or getattr(obj, 'state', None) is None:
                    raise Unsupported('unconsumed_tail of another decompression object')
                a, done = obj.state
                total = inflate_len(*a)
                mx = args[1] if len(args) > 1 else kw.get('max_length', 0)
                rest = total - to_int(done)
                n = z3.If(to_int(mx) == 0, rest, z3.If(rest < to_int(mx), rest, to_int(mx)))
                obj.state = (a, z3.simplify(to_int(done) + n))
                return SBytes(inflate_arr(*a), to_int(done), n)
            if name == 'decompress':
                data = args[0] if isinstance(args[0], SBytes) else self.to_sbytes(I, args[0])
                from .vals import view_args
                a = view_args(data)
                if not I.ctx.branch(inflate_ok(*a)):
                    raise PyExc('zlib.error', ln, 'corrupt deflate stream')
                total = inflate_len(*a)
                I.ctx.assume(total >= 0)
                mx = args[1] if len(args) > 1 else kw.get('max_length', 0)
                n = z3.If(to_int(mx) == 0, total, z3.If(total < to_int(mx), total, to_int(mx))) if is_sym(mx) else \
                    (total if mx == 0 else z3.If(total < mx, total, z3.IntVal(mx)))
                arr = inflate_arr(*a)
                I.ctx.byte_arrays.append(arr)
                obj.state = (a, n)
                return SBytes(arr, 0, n)
            raise Unsupported('zlib object method %s' % name)
        from .methods import ChunkList
        if isinstance(obj, ChunkList):
            if name == 'append':
                obj.append(I, self, args[0])
                return None
            raise Unsupported('ChunkList.%s' % name)
        if isinstance(obj, list):
            return self.list_method(I, obj, name, args, kw, node)
        if isinstance(obj, dict):
            return self.dict_method(I, obj, name, args, kw, node)
        if isinstance(obj, SDict):
            if name == 'get':
                d = args[1] if len(args) > 1 else None
                if I.pure:
                    raise Unsupported('SDict.get in contract')
                return obj.get(args[0]) if I.ctx.branch(obj.has(args[0])) else d
            raise Unsupported('SDict.%s' % name)
        if isinstance(obj, SList):
            if name == 'append':
                v, n0, el0 = args[0], obj.n, obj.elem
                obj.elem = lambda i, v=v, n0=n0, el0=el0: I.ite(to_int(i) == to_int(n0), v, el0(i)) \
                    if is_sym(z3.simplify(to_int(i) == to_int(n0))) and not z3.is_true(z3.simplify(to_int(i) == to_int(n0))) \
                    and not z3.is_false(z3.simplify(to_int(i) == to_int(n0))) \
                    else (v if z3.is_true(z3.simplify(to_int(i) == to_int(n0))) else el0(i))
                obj.n = z3.simplify(to_int(n0) + 1)
                return None
            if name == 'insert':
                pos, v, n0, el0 = to_int(args[0]), args[1], obj.n, obj.elem
                if not I.pure and not I.ctx.provable(z3.And(pos >= 0, pos <= to_int(n0))):
                    # list.insert clamps: negative positions count from the end (not below 0),
                    # positions beyond the end append
                    nn = to_int(n0)
                    pos = z3.If(pos < 0, z3.If(pos + nn < 0, 0, pos + nn), z3.If(pos > nn, nn, pos))

                def elem(i, pos=pos, v=v, el0=el0):
                    ii = to_int(i)
                    return I.ite(ii < pos, el0(ii), I.ite(ii == pos, v, el0(ii - 1)))
                obj.elem = elem
                obj.n = z3.simplify(to_int(n0) + 1)
                return None
            if name == 'extend':
                seq = self.as_seq(I, args[0], node)
                n0, el0 = obj.n, obj.elem

                def elem(i, n0=n0, el0=el0, seq=seq):
                    c = to_int(i) < to_int(n0)
                    return I.ite(c, el0(i), seq.elem(to_int(i) - to_int(n0)))
                obj.elem = elem
                obj.n = z3.simplify(to_int(n0) + to_int(seq.n))
                return None
            raise Unsupported('SList.%s' % name)
        if is_strlike(obj):
            return self.str_method(I, obj, name, args, kw, node)
        if isinstance(obj, Code):
            if not I.pure and not I.ctx.branch(obj.isname):
                raise PyExc('AttributeError', ln, 'int has no attribute %s' % name)
            if I.pure:
                r = self.str_method(I, obj.name, name, args, kw, node)
                return zand(obj.isname, r) if name in ('startswith', 'endswith') else r
            return self.str_method(I, obj.name, name, args, kw, node)
        if isinstance(obj, set):
            if name == 'add':
                obj.add(args[0])
                return None
        if isinstance(obj, Opaque):
            raise Unsupported('method %s on opaque %s (line %s)' % (name, obj.what, ln))
        if self.is_construct(obj) and name in ('parse', 'parse_stream', 'sizeof'):
            if name == 'parse_stream':
                return self.parse_at(I, obj, args[0], ln, exc='ConstructError')
            if name == 'parse':
                return self.parse_bytes(I, obj, args[0], ln)
            return obj.sizeof()
        if isinstance(obj, type) or inspect.ismodule(obj) or callable(getattr(obj, name, None)):
            f = getattr(obj, name, _MISSING)
            if f is _MISSING:
                raise PyExc('AttributeError', ln, name)
            if isinstance(obj, type) and self.func_key(f) is not None and not isinstance(
                    inspect.getattr_static(obj, name), (staticmethod, classmethod)):
                # Base.method(self, ...) explicit call
                return self.call(I, f, args, kw, node, fr)
            return self.call(I, f, args, kw, node, fr)
        raise Unsupported('method %s on %r (line %s)' % (name, type(obj).__name__, ln))

    def class_has(self, clsname, name):
        cls = self.real_class(clsname)
        if cls is None:
            return None
        return any(name in vars(k) for k in cls.__mro__)

    def call_obj_method(self, I, obj, name, args, kw, node, after=None):
        cls = self.real_class(obj.cls)
        if cls is None:
            raise Unsupported('unknown class %s' % obj.cls)
        mro = list(cls.__mro__)
        if after is not None:
            idx = [i for i, k in enumerate(mro) if k.__name__ == after]
            if not idx:
                raise Unsupported('super(): %s not in the MRO of %s' % (after, obj.cls))
            mro = mro[idx[0] + 1:]
        for k in mro:
            if k is object and name == '__init__':
                return None
            if name in vars(k):
                raw = vars(k)[name]
                if isinstance(raw, staticmethod):
                    return self.call(I, raw.__func__, args, kw, node, None)
                if isinstance(raw, classmethod):
                    return self.call(I, raw.__func__, [cls] + list(args), kw, node, None)
                if isinstance(raw, property):
                    raw = raw.fget
                f = raw
                key = self.func_key(f)
                if key is None:
                    raise Unsupported('method %s.%s is not repository code' % (obj.cls, name))
                return self.call_repo(I, key, f, [obj] + list(args), kw, node)
        raise PyExc('AttributeError', line_of(node), '%s.%s' % (obj.cls, name))

    # ------------------------------------------------------------ constructors
    def construct(self, I, cls, args, kw, node):
        name = cls.__name__
        if issubclass(cls, BaseException):
            return SObj(name, {})
        if cls is io.BytesIO:
            arr = z3.K(IntS, z3.IntVal(0))
            s = SStream(arr, 0, 0, 'bytesio%d' % I.ctx.counter.setdefault('bio', 0))
            I.ctx.counter['bio'] += 1
            if args:
                self.stream_write(I, s, args[0])
                s.pos = 0
            return s
        if cls in (int, bool, str, bytes, list, tuple, dict, set, range):
            return _BUILTIN_TABLE[cls](self, I, args, kw, node)
        import collections
        if cls is collections.OrderedDict:
            return dict(*args, **kw)
        if cls is collections.defaultdict:
            raise Unsupported('defaultdict')
        key = None
        init = None
        for k in cls.__mro__:
            if '__init__' in vars(k):
                init = vars(k)['__init__']
                break
        if name == 'Container':
            return SRec(dict(kw), 'Container')
        if hasattr(cls, '_fields') and issubclass(cls, tuple):
            # namedtuple
            fields = list(cls._fields)
            vals = dict(zip(fields, args))
            vals.update(kw)
            dflt = getattr(cls, '_field_defaults', {})
            for f in fields:
                if f not in vals:
                    if f in dflt:
                        vals[f] = dflt[f]
                    else:
                        raise PyExc('TypeError', line_of(node), 'missing field %s' % f)
            return SRec(vals, name)
        if init is not None:
            key = self.func_key(init)
        obj = SObj(name, {}, ctor_args=list(args), ctor_kw=dict(kw))
        if name in ('ELFStructs', 'DWARFStructs', 'EHABIStructs'):
            obj.is_structs = True          # its struct attributes are reached abstractly (K1 layouts, K2 obligations)
        if name == 'DWARFStructs':
            # DWARFStructs.__new__ (memoised per configuration): stores the four parameters after asserting
            # the format and the address size; the struct factories it then runs are the K2 obligations
            names = ['little_endian', 'dwarf_format', 'address_size', 'dwarf_version']
            vals = dict(zip(names, args))
            vals.update(kw)
            vals.setdefault('dwarf_version', 2)
            if any(n not in vals for n in names):
                raise PyExc('TypeError', line_of(node), 'DWARFStructs() missing argument')
            fmt, asz = to_int(vals['dwarf_format']), to_int(vals['address_size'])
            for cond in (z3.Or(fmt == 32, fmt == 64), z3.Or(asz == 8, asz == 4)):
                c = z3.simplify(cond)
                if z3.is_false(c) or (not z3.is_true(c) and not I.ctx.branch(c)):
                    raise PyExc('AssertionError', line_of(node), 'DWARFStructs parameter')
            obj.attrs.update(vals)
            I.assumptions.add('DWARFStructs.__new__ modelled: asserts format in {32,64} and address size in {4,8}, stores its parameters; '
                              'its struct factories are the K2 obligations')
            return obj
        if key is not None and key in self.registry:
            self.call_repo(I, key, init, [obj] + list(args), kw, node)
            return obj
        # abstract constructor: arguments recorded, no exception assumed
        I.assumptions.add('constructor %s treated abstractly (arguments recorded, assumed not to raise)' % name)
        if key is not None:
            try:
                fn = extract.find(key[0], key[1])
                params = [a.arg for a in fn.args.args][1:]
                for p, v in zip(params, args):
                    obj.attrs['arg:' + p] = v
                for p, v in kw.items():
                    obj.attrs['arg:' + p] = v
            except extract.ExtractError:
                pass
        return obj

    # ------------------------------------------------------ contract at a call
    def apply_contract(self, I, c, args, kw, node):
        from .stmts import gsub
        fn = extract.find(c.relpath, c.qualname)
        mod = importlib.import_module(extract.module_name(c.relpath))
        sf = SFunc(fn, None, c.qualname, mod)
        fr = Frame({}, None, func=sf)
        I.bind_args(fn, fr, list(args), dict(kw), sf)
        ln = line_of(node)
        saved_ghost = dict(I.ghost)
        try:
            return self._apply_contract(I, c, fr, ln, node)
        finally:
            I.ghost.clear()
            I.ghost.update(saved_ghost)

    def _assume_post(self, I, c, text, fr, extra, site=None):
        """assume one postcondition of a contracted callee at a call site.  A clause that is literally false ends
        the path (legitimate when the path forked on a havocked optional the clause excludes); call sites at which
        EVERY path ends this way are reported after the exploration: the callee's contract does not fit the call
        and everything after it would be vacuously proved"""
        if text.startswith('@check '):
            return           # proved where the function is verified, not expressible on a freshly shaped result (object identity)
        g = I.as_goal(I.pure_eval(text, fr, extra))
        if z3.is_false(z3.simplify(g)):
            st = self.__dict__.setdefault('site_stats', {}).setdefault(site or (c.qualname, None), [0, 0, text])
            st[1] += 1
            raise PathEnd()
        I.ctx.assume(g)

    def _site_ok(self, c, site):
        self.__dict__.setdefault('site_stats', {}).setdefault(site or (c.qualname, None), [0, 0, ''])[0] += 1

    def _apply_contract(self, I, c, fr, ln, node):
        from .stmts import gsub
        for g, e in c.ghost.items():
            I.ghost[gsub(g)] = I.pure_eval(e, fr)
        # preconditions
        for i, r in enumerate(c.requires):
            g = I.as_goal(I.pure_eval(r, fr))
            I.ctx.oblige(I.oname('call-pre[%s:%d]' % (c.qualname, i), ln), g, 'call-pre', ln)
            I.ctx.assume(g)
        old = self.snapshot_frame(I, fr)
        # exceptional outcomes
        for cls, cond in c.raises.items():
            if I.ctx.branch(I.as_goal(I.pure_eval(cond, fr))):
                raise PyExc(cls, ln, 'from %s' % c.qualname)
        for cls in c.may_raise:
            b = I.ctx.const('mayraise!%s' % cls, BoolS)
            if I.ctx.branch(b):
                raise PyExc(cls, ln, 'from %s (may)' % c.qualname)
        # effects: a callee may leave every stream it can reach at any position (its postconditions may
        # say more, e.g. that the position is preserved); this is what makes every proved postcondition
        # independent of where earlier queries left the shared streams (C10)
        if not I.pure and not getattr(c, 'pure_fn', False):
            for st in self.reachable_streams(fr):
                st.pos = I.ctx.const(st.name + '.pos!c', IntS)
                I.ctx.assume(st.pos >= 0)
        for path in c.modifies:
            if path == '*rep':
                self.havoc_reps(I, fr)
                continue
            I.havoc_path(path, fr, getattr(c, 'havoc_shapes', {}))
        is_gen = bool(c.each_yield) or c.yield_shape is not None
        prev_old = I.old_frame
        I.old_frame = old
        try:
            if is_gen:
                n = I.ctx.const('n!' + c.qualname, IntS)
                I.ctx.assume(n >= 0)
                prev_n = I.ghost.get('_G_n')
                I.ghost['_G_n'] = n
                # the callee's loop counters at its exit: unknown non-negative integers
                for o in range(len(extract.loops_of(extract.find(c.relpath, c.qualname)))):
                    kx = I.ctx.const('kexit%d!%s' % (o, c.qualname), IntS)
                    I.ctx.assume(kx >= 0)
                    I.ghost['_G_k%d' % o] = kx
                for e in c.ensures:
                    self._assume_post(I, c, e, fr, None, (c.qualname, ln))
                ys = c.yield_shape
                if callable(ys) and not hasattr(ys, 'make'):
                    ys = ys(**fr.env)          # shape chosen from the (concrete parts of the) arguments
                qn = c.qualname
                ctxname = I.ctx.fname('y!' + qn)
                outer = self

                nloops = len(extract.loops_of(extract.find(c.relpath, c.qualname)))
                cghost = {k: v for k, v in I.ghost.items()}

                def elem(i, ys=ys, fr=fr, ctxname=ctxname, old=old):
                    v = ys.make(I.ctx, ctxname, to_int(i))
                    saved = dict(I.ghost)
                    po = I.old_frame
                    I.ghost.update(cghost)
                    I.ghost['_G_n'] = to_int(i)
                    # loop counters of the callee at the time of the i-th yield: unknown functions of i
                    for o in range(nloops):
                        kf = z3.Function('%s.k%d' % (ctxname, o), IntS, IntS)
                        I.ghost['_G_k%d' % o] = kf(to_int(i))
                        I.ctx.assume(kf(to_int(i)) >= 0)
                    I.old_frame = old
                    try:
                        for e in c.each_yield:
                            outer._assume_post(I, c, e, fr, {'value': v}, (c.qualname, 'element'))
                        outer._site_ok(c, (c.qualname, 'element'))
                    finally:
                        I.ghost.clear()
                        I.ghost.update(saved)
                        I.old_frame = po
                    return v
                if prev_n is not None:
                    I.ghost['_G_n'] = prev_n
                else:
                    I.ghost.pop('_G_n', None)
                return SGen(SList(elem, n, qn))
            if c.result_expr is not None:
                res = I.pure_eval(c.result_expr, fr)
                for e in c.ensures:
                    self._assume_post(I, c, e, fr, {'result': res}, (c.qualname, ln))
                self._site_ok(c, (c.qualname, ln))
                return res
            if c.returns is None and any(re.search(r'\bresult\b', e) for e in c.ensures):
                raise Unsupported('contract %s constrains `result` but declares no `returns` shape' % c.qualname)
            res = c.returns.make(I.ctx, 'ret!' + c.qualname) if c.returns is not None else None
            for k, sh in c.sets_shape.items():
                # attribute given a fresh value of the shape, then constrained by the ensures
                fr.env.get('self').attrs[k] = sh.make(I.ctx, 'set!%s.%s' % (c.qualname, k))
            if c.sets or c.sets_if:
                target = fr.env.get('self')
                for k, e in c.sets.items():
                    target.attrs[k] = I.pure_eval(e, fr)
                for k, (cond, e) in c.sets_if.items():
                    # attribute present only under cond; at call sites it is given the value it has when present
                    target.attrs[k] = I.pure_eval(e, fr)
            for e in c.ensures:
                try:
                    self._assume_post(I, c, e, fr, {'result': res}, (c.qualname, ln))
                except Unsupported as ex:
                    if 'may raise' not in str(ex):
                        raise
                    # a postcondition that cannot be evaluated for this result shape is simply not
                    # assumed at this call site (weaker assumption: sound)
                    I.assumptions.add('call site of %s: postcondition %r not usable (not evaluable here)' % (c.qualname, e[:60]))
            self._site_ok(c, (c.qualname, ln))
            return res
        finally:
            I.old_frame = prev_old

    def rep_objects(self, fr):
        """(path, object) of the invariant-carrying objects reachable from a frame"""
        seen, objs = set(), []

        def walk(v, path):
            if id(v) in seen:
                return
            seen.add(id(v))
            if isinstance(v, SObj):
                if getattr(v, 'rep', ()):
                    objs.append((path, v))
                for k, x in v.attrs.items():
                    walk(x, path + '.' + k)
            elif isinstance(v, SRec):
                for k, x in v.fields.items():
                    walk(x, path + '.' + k)
            elif isinstance(v, (list, tuple)):
                for i, x in enumerate(v):
                    walk(x, '%s[%d]' % (path, i))
        for k, v in fr.env.items():
            walk(v, k)
        return objs

    def havoc_reps(self, I, fr):
        """the callee may rebuild any lazily built cache reachable from its arguments: their
        representation fields get fresh values satisfying the object invariants"""
        objs = [o for _p, o in self.rep_objects(fr)]
        for o in objs:
            for k, sh in getattr(o, 'rep_shapes', {}).items():
                o.attrs[k] = sh.make(I.ctx, '%s.%s!r' % (o.cls, k))
        for o in objs:
            I.assume_invariant(o)

    def snapshot_frame(self, I, fr):
        memo = {}
        return Frame({k: self.snap(v, memo) for k, v in fr.env.items()}, None, func=fr.func)

    def snap(self, v, memo):
        if id(v) in memo:
            return memo[id(v)]
        if isinstance(v, SStream):
            n = SStream(v.arr, v.length, v.pos, v.name)
            n.closed = v.closed
        elif isinstance(v, SRec):
            n = SRec({}, v.kind, v.tag, v.present)
            memo[id(v)] = n
            n.fields = {k: self.snap(x, memo) for k, x in v.fields.items()}
        elif isinstance(v, SObj):
            n = SObj(v.cls, {}, v.ctor_args, v.ctor_kw)
            if getattr(v, 'is_structs', False):
                n.is_structs = True
            memo[id(v)] = n
            n.attrs = {k: self.snap(x, memo) for k, x in v.attrs.items()}
        elif isinstance(v, list):
            n = [self.snap(x, memo) for x in v]
        elif isinstance(v, dict):
            n = {k: self.snap(x, memo) for k, x in v.items()}
        elif isinstance(v, SDict):
            n = SDict(v.has, v.get, v.name)
        elif isinstance(v, SList):
            n = SList(v.elem, v.n, v.name)        # append/insert update the object in place
        else:
            n = v
        memo[id(v)] = n
        return n

    # --------------------------------------------------------------- specs
    def call_spec(self, I, func, args, kw, node):
        """specification function written in the python subset: executed by the
        same evaluator (pure mode keeps BoolOps as terms)."""
        if getattr(func, '_native', False):
            try:
                return func(I, *args, **kw)
            except (KeyError, AttributeError) as ex:
                # the specification reads a component the actual argument does not have (wrong
                # kind of object passed): not evaluable, like an attribute error in the expression
                raise PyExc('AttributeError', line_of(node), 'specification %s: %r' % (func.__name__, ex))
        src = inspect.getsource(func)
        tree = _spec_ast(func, src)
        sf = SFunc(tree, None, func.__qualname__, inspect.getmodule(func))
        return I.call_sfunc(sf, args, kw, node)

    # ---------------------------------------------------------- struct_parse
    def struct_parse(self, I, args, kw, node):
        ln = line_of(node)
        names = ['struct', 'stream', 'stream_pos']
        a = dict(zip(names, args))
        a.update(kw)
        struct, stream, pos = a['struct'], a['stream'], a.get('stream_pos')
        if stream is None:
            raise PyExc('AttributeError', ln, 'struct_parse on None stream')
        if not isinstance(stream, SStream):
            raise Unsupported('struct_parse on %r' % (stream,))
        if pos is not None:
            self.stream_seek(I, stream, pos, 0, ln)
        return self.parse_at(I, struct, stream, ln)

    def is_construct(self, obj):
        try:
            from elftools.construct.core import Construct
            return isinstance(obj, Construct)
        except Exception:
            return False

    def parse_bytes(self, I, struct, data, ln):
        """struct.parse(data): parse from the start of a bytes value; raw construct errors"""
        if isinstance(data, (bytes, bytearray)):
            data = self.to_sbytes(I, data)
        if not isinstance(data, SBytes):
            raise Unsupported('parse of %r' % (data,))
        st = SStream(data.arr, z3.simplify(to_int(data.off) + to_int(data.n)), data.off, 'tmp')
        return self.parse_at(I, struct, st, ln, exc='ConstructError')

    def parse_at(self, I, struct, stream, ln, exc='ELFParseError'):
        p = stream.pos
        from .vals import FormParser
        if isinstance(struct, FormParser):
            return self.parse_form(I, struct, stream, ln, exc)
        if isinstance(struct, StructRef) and getattr(struct, 'array', None):
            return self.parse_array(I, struct.array[0], struct.array[1], stream, ln, exc)
        from .vals import DynStruct, DynSwitch
        if isinstance(struct, DynStruct):
            rec = SRec({}, 'Container')
            for m in struct.members:
                if isinstance(m, DynSwitch):
                    key = self.call(I, m.keyfunc, [rec], {}, None, None)
                    sub = None
                    for k, v in m.cases.items():
                        if I.ctx.branch(to_int(key) == k):
                            sub = v
                            break
                    if sub is None:
                        raise PyExc(exc if exc != 'ConstructError' else 'SwitchError', ln, 'no case for the switch key')
                    rec.fields[m.field_name] = self.parse_at(I, sub, stream, ln, exc)
                else:
                    rec.fields[m.field_name] = self.parse_at(I, m, stream, ln, exc)
            return rec
        if isinstance(struct, StructRef) and struct.name == 'Elf_ntbs':
            lay = cstring_layout(b'\x00', getattr(struct, 'kw', {}).get('encoding'))
            owner = struct.owner
        elif isinstance(struct, StructRef):
            lay = LAYOUTS.get(struct.name)
            if lay is None:
                raise Unsupported('no layout registered for struct %s' % struct.name)
            owner = struct.owner
        else:
            lay = self.layout_of_real(I, struct)
            owner = None
        if getattr(lay, 'custom', None):
            return lay.custom(I, self, stream, owner, ln, exc)
        size = lay.size(owner) if callable(lay.size) else lay.size
        pz = to_int(p)
        L = to_int(stream.length)
        if size is not None:
            ok = z3.And(pz + to_int(size) <= L)
        else:
            okf = z3.Function('ok!' + lay.name, ArrS, IntS, IntS, BoolS)
            endf = z3.Function('end!' + lay.name, ArrS, IntS, IntS)
            ok = okf(stream.arr, L, pz)
            mins = lay.minsize if lay.minsize is not None else 0
            I.ctx.assume(z3.Implies(ok, z3.And(endf(stream.arr, pz) >= pz + mins, endf(stream.arr, pz) <= L)))
        if not I.ctx.branch(ok):
            raise PyExc(exc if exc != 'ConstructError' else 'FieldError', ln, 'short read in %s' % lay.name)
        mk = UFMaker(I.ctx, stream.arr, pz, lay.name)
        val = self.layout_value(I, lay, mk)
        for fname, lo, exact in getattr(lay, 'offset_facts', None) or []:
            # StreamOffset members: positions inside the struct (from the specification layout)
            if isinstance(val, SRec) and fname in val.fields:
                fv = to_int(val.fields[fname])
                I.ctx.assume(fv == pz + lo if exact else fv >= pz + lo)
        if size is not None:
            stream.pos = z3.simplify(pz + to_int(size))
        else:
            stream.pos = z3.Function('end!' + lay.name, ArrS, IntS, IntS)(stream.arr, pz)
        return val

    def build_at(self, I, struct, value, stream, ln):
        """<fixed-width unsigned field>.build_stream(value, stream): writes the field's bytes at the stream position.
        Assumed contract of construct's builder (listed in the evidence): a value outside the field's range is rejected;
        otherwise exactly `size` bytes are written at the position, every other byte of the stream keeps its value, the
        stream grows to hold them, and parsing the written field gives the value back (round trip of the K2-checked
        layout)"""
        lay = LAYOUTS.get(struct.name)
        if lay is None or getattr(lay, 'custom', None) or isinstance(lay.fields, dict) or not isinstance(stream, SStream):
            raise Unsupported('build_stream of %s' % struct.name)
        size = lay.size(struct.owner) if callable(lay.size) else lay.size
        if not isinstance(size, int):
            sz = z3.simplify(to_int(size))
            if not z3.is_int_value(sz):
                raise Unsupported('build_stream of a field without a fixed size')
            size = sz.as_long()
        v, p = to_int(value), to_int(stream.pos)
        if not I.ctx.branch(z3.And(v >= 0, v < 2 ** (8 * size))):
            raise PyExc('FieldError', ln, 'value does not fit the field')
        arr2 = I.ctx.const('%s.B!w' % stream.name, ArrS)
        j = z3.Int('j!w')
        I.ctx.assume(z3.ForAll([j], z3.Implies(z3.Or(j < p, j >= p + size), z3.Select(arr2, j) == z3.Select(stream.arr, j))))
        I.ctx.assume(z3.Function(lay.name, ArrS, IntS, IntS)(arr2, p) == v)
        stream.arr = arr2
        stream.length = z3.If(to_int(stream.length) >= p + size, to_int(stream.length), p + size)
        stream.pos = z3.simplify(p + size)
        I.assumptions.add('construct builder of a fixed-width unsigned field: writes exactly the field at the stream position, leaves every '
                          'other byte, and the written field parses back to the value (assumed; the parse direction is the K2 obligation)')
        return None

    def parse_form(self, I, fp, stream, ln, exc):
        """abstract operand parser of an attribute form (see vals.FormParser)"""
        ow = fp.owner
        cfg = [to_int(ow.attrs[a]) for a in ('dwarf_format', 'address_size', 'dwarf_version')]
        nm = to_str(fp.name)
        p0, L = to_int(stream.pos), to_int(stream.length)
        sorts = [ArrS, IntS, StrS, IntS, IntS, IntS]
        val = z3.Function('form.val', *(sorts + [IntS]))(stream.arr, p0, nm, *cfg)
        end = z3.Function('form.end', *(sorts + [IntS]))(stream.arr, p0, nm, *cfg)
        ok = z3.Function('form.ok', *([ArrS, IntS, IntS, StrS, IntS, IntS, IntS, BoolS]))(stream.arr, L, p0, nm, *cfg)
        if not I.ctx.branch(ok):
            raise PyExc(exc if exc != 'ConstructError' else 'FieldError', ln, 'short read in attribute form')
        I.ctx.assume(z3.And(end >= p0, end <= L))
        # form table entries the specifications name: DW_FORM_indirect is a ULEB128 number (7.5.3); flag_present and
        # implicit_const occupy no bytes
        uval = z3.Function('leb.u.val', ArrS, IntS, IntS)(stream.arr, p0)
        uend = z3.Function('leb.end', ArrS, IntS, IntS)(stream.arr, p0)
        I.ctx.assume(z3.Implies(nm == z3.StringVal('DW_FORM_indirect'), z3.And(val == uval, end == uend, uend > p0, uval >= 0)))
        stream.pos = end
        I.assumptions.add('attribute form parsers are abstract (value/end functions of bytes, position, form, format, address size, version); '
                          'the real form table is the K2 obligation; DW_FORM_indirect is taken to be a ULEB128 number as K2 establishes')
        return val

    def parse_array(self, I, count, sub, stream, ln, exc):
        """Array(count, <fixed-size primitive>): count adjacent values from the stream position
        (construct's Array raises when fewer are available; a non-positive count is empty)"""
        lay = LAYOUTS.get(sub.name)
        if lay is None or getattr(lay, 'custom', None) or isinstance(lay.fields, dict):
            raise Unsupported('Array of %s' % sub.name)
        size = lay.size(sub.owner) if callable(lay.size) else lay.size
        if size is None:
            raise Unsupported('Array of variable-size %s' % sub.name)
        n, p, L = to_int(count), to_int(stream.pos), to_int(stream.length)
        if I.ctx.branch(n <= 0):
            return []
        if not I.ctx.branch(p + n * to_int(size) <= L):
            raise PyExc(exc if exc != 'ConstructError' else 'ArrayError', ln, 'short read in array of %s' % lay.name)
        arr = stream.arr
        stream.pos = z3.simplify(p + n * to_int(size))
        f = z3.Function(lay.name, ArrS, IntS, IntS)
        jv = z3.Int('j!arr')
        sh = lay.fields
        lo, hi = getattr(sh, 'lo', None), getattr(sh, 'hi', None)
        cs = [c for c in ((f(arr, jv) >= lo) if lo is not None else None, (f(arr, jv) < hi) if hi is not None else None) if c is not None]
        if cs:
            I.ctx.assume(z3.ForAll([jv], z3.And(*cs), patterns=[f(arr, jv)]))
        return SList(lambda i, arr=arr, p=p, size=size: f(arr, p + to_int(i) * to_int(size)), n, 'array')

    def layout_value(self, I, lay, mk):
        if isinstance(lay.fields, dict):
            rec = SRec({k: s.make(mk, '%s.%s' % (lay.name, k)) for k, s in lay.fields.items()}, 'Container')
            array_facts(I, lay, rec)
            return rec
        return lay.fields.make(mk, lay.name)          # single-value struct

    def layout_of_real(self, I, struct):
        """layouts of concrete construct objects built inline (ULInt8('') etc.)"""
        from . import k2
        nf = k2.normal_form(struct)
        if nf[0] == 'cstring':
            return cstring_layout(nf[1], nf[2])
        return k2.layout_from_nf(nf)


def array_facts(I, lay, rec):
    """lengths of array members equal their count expressions (from the specification layout)"""
    from .k2 import FnSpec
    nf = getattr(lay, 'nf', None)
    if not nf or nf[0] != 'struct':
        return
    for name, sub in nf[1]:
        if name and sub[0] == 'array' and isinstance(rec.fields.get(name), SList):
            cnt = sub[1]
            if isinstance(cnt, FnSpec):
                v = I.pure_eval(cnt.text, Frame({'ctx': rec}, None))
            else:
                v = cnt
            I.ctx.assume(to_int(rec.fields[name].n) == to_int(v))


nulpos = z3.Function('nulpos', ArrS, IntS, IntS)     # least q >= p with B[q] == 0


def nul_axioms(I, arr, p):
    """definition of q = nulpos(arr, p): the least position >= p holding a NUL, if any"""
    p = to_int(p)
    q = nulpos(arr, p)
    j = z3.Int('j!nul')
    I.ctx.assume(q >= p)
    I.ctx.assume(z3.ForAll([j], z3.Implies(z3.And(j >= p, j < q), z3.Select(arr, j) != 0),
                           patterns=[z3.Select(arr, j)]))
    I.ctx.assume(z3.ForAll([j], z3.Implies(z3.And(j >= p, z3.Select(arr, j) == 0),
                                           z3.And(z3.Select(arr, q) == 0, q <= j)),
                           patterns=[z3.Select(arr, j)]))
    return q


def cstring_at(I, arr, length, p):
    """(ok, q): q = position of the first NUL at or after p; ok iff it exists before `length`"""
    q = nul_axioms(I, arr, p)
    ok = z3.And(q < to_int(length), z3.Select(arr, q) == 0)
    return ok, q


def cstring_layout(terminators, encoding):
    if terminators != b'\x00':
        raise Unsupported('CString with terminators %r' % (terminators,))
    lay = Layout('cstring', None)

    def custom(I, M, stream, owner, ln, exc):
        ok, q = cstring_at(I, stream.arr, stream.length, stream.pos)
        if not I.ctx.branch(ok):
            raise PyExc('ELFParseError' if exc == 'ELFParseError' else 'ArrayError', ln, 'C string without terminator')
        I.ctx.assume(z3.Select(stream.arr, q) == 0)
        p = stream.pos
        val = SBytes(stream.arr, p, z3.simplify(q - to_int(p)))
        stream.pos = z3.simplify(q + 1)
        if encoding:
            return M.bytes_method(I, val, 'decode', [encoding], {}, None)
        return val
    lay.custom = custom
    return lay


class SpecFn:
    """native specification function: python callable(I, *values)"""

    def __init__(self, fn):
        self.fn = fn
        self.__name__ = fn.__name__

    def __call__(self, I, *a, **k):
        return self.fn(I, *a, **k)


_spec_cache = {}


def _spec_ast(func, src):
    if func not in _spec_cache:
        import textwrap
        tree = ast.parse(textwrap.dedent(src)).body[0]
        _spec_cache[func] = tree
    return _spec_cache[func]


# ------------------------------------------------------------------ builtins
def _b_len(M, I, args, kw, node):
    v = args[0]
    if isinstance(v, SBytes):
        return v.n
    if isinstance(v, SList):
        return v.n
    if isinstance(v, SGen):
        raise PyExc('TypeError', line_of(node), 'len of generator')
    if isinstance(v, SRec):
        return len(v.fields)
    if is_sym(v) and z3.is_string(v):
        return z3.Length(v)
    if isinstance(v, SObj):
        return M.call_method(I, v, '__len__', [], {}, node, None)
    if v is None or isinstance(v, (int, bool)) or (is_sym(v) and not z3.is_string(v)):
        raise PyExc('TypeError', line_of(node), 'len()')
    try:
        return len(v)
    except TypeError:
        raise PyExc('TypeError', line_of(node), 'len() of %s' % type(v).__name__)


def _b_int(M, I, args, kw, node):
    if not args:
        return 0
    v = args[0]
    if isinstance(v, FloatDiv):
        # int(a / b): exact floor for non-negative operands below 2^53 (assumption)
        I.assumptions.add('float division int(a/b) modelled as floor division (exact below 2^53)')
        return I.binop(ast.FloorDiv(), v.a, v.b, node)
    if isinstance(v, CeilDiv):
        return v.value
    if is_intlike(v) or is_boollike(v):
        return to_int(v) if is_sym(v) else int(v)
    if isinstance(v, (str, bytes)):
        try:
            return int(v, *args[1:])
        except ValueError:
            raise PyExc('ValueError', line_of(node))
    if isinstance(v, Code):
        if I.ctx.branch(v.isname):
            raise PyExc('ValueError', line_of(node), 'int() of name')
        return v.raw
    raise Unsupported('int(%r)' % (v,))


def _b_bool(M, I, args, kw, node):
    return I.truth(args[0]) if args else False


def _b_minmax(which):
    def f(M, I, args, kw, node):
        vals = args
        if len(args) == 1:
            vals = M.concrete_iter(I, args[0], node)
            if vals is None:
                sl = M.as_seq(I, args[0], node)
                if not I.pure and I.ctx.branch(to_int(sl.n) <= 0):
                    raise PyExc('ValueError', line_of(node), '%s() of empty sequence' % which)
                m = I.ctx.const(which, IntS)
                j = z3.Int('j!mm%d' % I.ctx.counter.setdefault('mm', 0))
                w = I.ctx.const(which + '.at', IntS)
                I.ctx.counter['mm'] += 1
                ej = to_int(sl.elem(j))
                I.ctx.assume(z3.ForAll([j], z3.Implies(z3.And(j >= 0, j < to_int(sl.n)),
                                                       ej <= m if which == 'max' else ej >= m), patterns=[ej]))
                I.ctx.assume(z3.And(w >= 0, w < to_int(sl.n), to_int(sl.elem(w)) == m))
                return m
            if not vals:
                if 'default' in kw:
                    return kw['default']
                raise PyExc('ValueError', line_of(node), '%s() of empty sequence' % which)
        out = vals[0]
        for v in vals[1:]:
            out = (zmin if which == 'min' else zmax)(out, v)
        return out
    return f


def _b_range(M, I, args, kw, node):
    if any(isinstance(a, Code) or a is None for a in args):
        raise PyExc('TypeError', line_of(node), 'range() of non-integer')
    if not any(is_sym(a) for a in args):
        try:
            return range(*args)
        except TypeError:
            raise PyExc('TypeError', line_of(node), 'range()')
    if len(args) == 1:
        return SymRange(0, args[0])
    if len(args) == 2:
        return SymRange(args[0], args[1])
    raise Unsupported('symbolic range with step')


def _b_isinstance(M, I, args, kw, node):
    v, t = args
    ts = t if isinstance(t, tuple) else (t,)
    for c in ts:
        if c is int and (is_intlike(v) or is_boollike(v)):
            return True
        if c is str and is_strlike(v):
            return True
        if c is bytes and isinstance(v, (bytes, SBytes)):
            return True
        if c is bool and is_boollike(v):
            return True
        if isinstance(v, SObj):
            rc = M.real_class(v.cls)
            if rc is not None and isinstance(c, type) and issubclass(rc, c):
                return True
        if isinstance(v, SRec) and isinstance(c, type) and v.tag is not None:
            from .vals import kind_id
            return v.tag == kind_id(c.__name__)
        if isinstance(v, SRec) and isinstance(c, type) and c.__name__ == v.kind:
            return True
        if isinstance(v, Code):
            if c is str:
                return v.isname
            if c is int:
                return znot(v.isname)
        if isinstance(c, type) and not is_sym(v) and not isinstance(v, (SObj, SRec, SBytes, SList, Code, SStream)):
            try:
                if isinstance(v, c):
                    return True
            except TypeError:
                pass
    return False


def _b_ord(M, I, args, kw, node):
    v = args[0]
    if isinstance(v, SBytes):
        if not I.pure and not I.ctx.branch(to_int(v.n) == 1):
            raise PyExc('TypeError', line_of(node), 'ord() expected a character')
        return v.at(0)
    return ord(v)


def _b_bytes(M, I, args, kw, node):
    if not args:
        return b''
    v = args[0]
    if isinstance(v, (SBytes, bytes)):
        return v
    if isinstance(v, (list, tuple)) and not any(is_sym(x) for x in v):
        return bytes(v)
    if isinstance(v, int):
        return bytes(v)
    if is_sym(v) and z3.is_int(v):
        return M.bytes_repeat(I, b'\x00', v)
    if isinstance(v, (list, tuple)):
        arr = z3.K(IntS, z3.IntVal(0))
        for i, x in enumerate(v):
            arr = z3.Store(arr, i, to_int(x))
        return SBytes(arr, 0, len(v))
    raise Unsupported('bytes(%r)' % (v,))


def _b_bytearray(M, I, args, kw, node):
    if not args:
        return b''
    v = args[0]
    if isinstance(v, (SBytes, bytes)):
        return v
    return _b_bytes(M, I, args, kw, node)


def _b_list(M, I, args, kw, node):
    if not args:
        return []
    seq = M.concrete_iter(I, args[0], node)
    if seq is None:
        return M.as_seq(I, args[0], node)
    return list(seq)


def _b_tuple(M, I, args, kw, node):
    if not args:
        return ()
    seq = M.concrete_iter(I, args[0], node)
    if seq is None:
        raise Unsupported('tuple() of symbolic sequence')
    return tuple(seq)


def _b_dict(M, I, args, kw, node):
    d = {}
    if args:
        src = args[0]
        if isinstance(src, dict):
            d.update(src)
        else:
            for k, v in M.concrete_iter(I, src, node):
                d[k] = v
    d.update(kw)
    return d


def _b_set(M, I, args, kw, node):
    if not args:
        return set()
    return set(M.concrete_iter(I, args[0], node))


def _b_enumerate(M, I, args, kw, node):
    return Enumerated(args[0], args[1] if len(args) > 1 else kw.get('start', 0))


def _b_zip(M, I, args, kw, node):
    return Zipped(list(args))


def _b_any(M, I, args, kw, node):
    seq = M.concrete_iter(I, args[0], node)
    if seq is None:
        s = M.as_seq(I, args[0], node)
        if I.pure:
            raise Unsupported('any() over symbolic sequence in contract')
        # any(generator of objects): truthiness of elements
        raise Unsupported('any() over symbolic-length sequence (line %s)' % line_of(node))
    return zor(*[I.truth(x) for x in seq])


def _b_all(M, I, args, kw, node):
    seq = M.concrete_iter(I, args[0], node)
    if seq is None:
        raise Unsupported('all() over symbolic sequence')
    return zand(*[I.truth(x) for x in seq])


def _b_sum(M, I, args, kw, node):
    seq = M.concrete_iter(I, args[0], node)
    if seq is None:
        raise Unsupported('sum() over symbolic sequence')
    out = args[1] if len(args) > 1 else 0
    for x in seq:
        out = I.binop(ast.Add(), out, x, node)
    return out


def _b_abs(M, I, args, kw, node):
    v = args[0]
    if is_sym(v):
        return z3.If(v >= 0, v, -v)
    return abs(v)


def _b_str(M, I, args, kw, node):
    if not args:
        return ''
    v = args[0]
    if isinstance(v, str):
        return v
    if is_sym(v) and z3.is_string(v):
        return v
    return Opaque('str()')


def _b_repr(M, I, args, kw, node):
    return Opaque('repr()')


def _b_hasattr(M, I, args, kw, node):
    o, a = args
    if isinstance(o, SObj):
        if a in o.attrs:
            return True
        return M.class_attr(I, o, a, node) is not _MISSING
    if isinstance(o, SRec):
        return a in o.fields
    return hasattr(o, a)


def _b_getattr(M, I, args, kw, node):
    try:
        return M.getattr(I, args[0], args[1], node)
    except PyExc as e:
        if e.cls == 'AttributeError' and len(args) > 2:
            return args[2]
        raise


def _b_copy(M, I, args, kw, node):
    """copy.copy: field-wise copy of a plain record/object, shallow copy of list/dict"""
    v = args[0]
    if isinstance(v, SObj):
        n = SObj(v.cls, dict(v.attrs), v.ctor_args, v.ctor_kw)
        if getattr(v, 'is_structs', False):
            n.is_structs = True
        return n
    if isinstance(v, SRec):
        return SRec(dict(v.fields), v.kind, v.tag, v.present)
    if isinstance(v, list):
        return list(v)
    if isinstance(v, dict):
        return dict(v)
    if isinstance(v, SList):
        return SList(v.elem, v.n, v.name)
    return v


def _b_deepcopy(M, I, args, kw, node):
    return M.snap(args[0], {})


def _b_setattr(M, I, args, kw, node):
    o, a, v = args
    if not isinstance(a, str):
        raise Unsupported('setattr with a symbolic attribute name')
    M.setattr(I, o, a, v, node)
    return None


def _b_sorted(M, I, args, kw, node):
    seq = M.concrete_iter(I, args[0], node)
    if seq is None or any(is_sym(x) for x in seq) or kw:
        raise Unsupported('sorted() of symbolic data')
    return sorted(seq)


def _b_divmod(M, I, args, kw, node):
    return (I.binop(ast.FloorDiv(), args[0], args[1], node), I.binop(ast.Mod(), args[0], args[1], node))


def _b_next(M, I, args, kw, node):
    it = args[0]
    seq = M.as_seq(I, it, node) if not isinstance(it, (list, tuple)) else None
    if seq is None:
        items = list(it)
        if items:
            return items[0]
        if len(args) > 1:
            return args[1]
        raise PyExc('StopIteration', line_of(node))
    if I.ctx.branch(to_int(seq.n) > 0):
        return seq.elem(z3.IntVal(0))
    if len(args) > 1:
        return args[1]
    raise PyExc('StopIteration', line_of(node))


def _b_iter(M, I, args, kw, node):
    return args[0]


class TypeOf:
    """type(v) of a value whose python type is decided symbolically (Code)"""

    def __init__(self, v):
        self.v = v


def _b_type(M, I, args, kw, node):
    v = args[0]
    if isinstance(v, SObj):
        return M.real_class(v.cls)
    if isinstance(v, Code):
        return TypeOf(v)
    if is_intlike(v):
        return int
    if is_strlike(v):
        return str
    if isinstance(v, (SBytes, bytes)):
        return bytes
    if v is None:
        return type(None)
    raise Unsupported('type()')


def _b_print(M, I, args, kw, node):
    return None


def _b_chr(M, I, args, kw, node):
    if is_sym(args[0]):
        # chr(x): the one-character string of code point x (SMT-LIB str.from_code); outside 0..0x10ffff a ValueError
        x = to_int(args[0])
        if not I.pure and not I.ctx.branch(z3.And(x >= 0, x < 0x110000)):
            raise PyExc('ValueError', line_of(node), 'chr() arg not in range')
        return z3.StrFromCode(x)
    return chr(args[0])


def _b_map(M, I, args, kw, node):
    f = args[0]
    seq = M.concrete_iter(I, args[1], node)
    if seq is None:
        raise Unsupported('map over symbolic sequence')
    return [M.call(I, f, [x], {}, node, None) for x in seq]


def _b_count(M, I, args, kw, node):
    return CountIter(args[0] if args else 0)


class ZlibObj:
    """zlib.decompressobj(): assumed contract decompress(z, n) = first n bytes of inflate(z)
    (n = 0: no limit); may raise zlib.error on a corrupt stream; decompress(unconsumed_tail, m) continues the same stream
    with the next m bytes"""
    state = None


class ZlibTail:
    """the unconsumed_tail of a decompression object (only meaningful as the argument of its next decompress call)"""

    def __init__(self, obj):
        self.obj = obj


inflate_arr = z3.Function('inflate.arr', ArrS, IntS, IntS, ArrS)
inflate_len = z3.Function('inflate.len', ArrS, IntS, IntS, IntS)
inflate_ok = z3.Function('inflate.ok', ArrS, IntS, IntS, BoolS)


def _b_decompressobj(M, I, args, kw, node):
    I.assumptions.add('zlib.decompressobj().decompress(z, n) returns the first n bytes of inflate(z) (documented behaviour)')
    return ZlibObj()


class CeilDiv:
    def __init__(self, value):
        self.value = value


def _b_ceil(M, I, args, kw, node):
    v = args[0]
    if isinstance(v, FloatDiv):
        I.assumptions.add('math.ceil(a/b) on floats modelled as exact ceiling division (exact below 2^53)')
        a, b = to_int(v.a), to_int(v.b)
        if not I.pure and I.ctx.branch(b == 0):
            raise PyExc('ZeroDivisionError', line_of(node))
        if not I.pure and not I.ctx.branch(b > 0):
            raise Unsupported('ceil of a quotient with a negative divisor')
        return -((-a) / b)          # math.ceil returns an int
    if isinstance(v, (int, float)):
        import math
        return math.ceil(v)
    raise Unsupported('math.ceil')


def _b_float(M, I, args, kw, node):
    v = args[0]
    if is_intlike(v):
        return v            # only consumed by '/' -> FloatDiv
    raise Unsupported('float()')


def _b_struct_unpack(M, I, args, kw, node):
    """struct.unpack for the single-field integer formats (assumed contract on the struct module:
    the two's-complement reader of the given width and byte order; struct.error on a size mismatch)"""
    fmt, data = args
    if not isinstance(fmt, str):
        raise Unsupported('symbolic struct format')
    table = {'B': (1, False), 'b': (1, True), 'H': (2, False), 'h': (2, True), 'I': (4, False), 'i': (4, True),
             'L': (4, False), 'l': (4, True), 'Q': (8, False), 'q': (8, True)}
    order = fmt[0] if fmt[0] in '<>=!' else '='
    chars = fmt[1:] if fmt[0] in '<>=!@' else fmt
    if not chars or any(c not in table for c in chars) or (len(chars) > 1 and fmt[0] not in '<>!'):
        raise Unsupported('struct format %r' % fmt)     # several fields only with standard sizes (no alignment)
    total = sum(table[c][0] for c in chars)
    data = data if isinstance(data, SBytes) else M.to_sbytes(I, data)
    if not I.pure and not I.ctx.branch(to_int(data.n) == total):
        raise PyExc('error', line_of(node), 'struct.error: unpack requires a buffer of %d bytes' % total)
    I.assumptions.add('struct.unpack(%r) reads %s-endian integers of the standard sizes, field after field' % (fmt, 'little' if order in '<=' else 'big'))
    out, off = [], to_int(data.off)
    for c in chars:
        n, signed = table[c]
        out.append(rd_int(data.arr, off, n, order in '<=', signed))
        off = off + n
    return tuple(out)


def _b_bisect_right(M, I, args, kw, node):
    """bisect.bisect_right(a, x) on a sorted list (documented contract): the insertion point p with
    all(e <= x for e in a[:p]) and all(e > x for e in a[p:]).  Sortedness of `a` is a call-pre obligation."""
    a, x = args[0], args[1]
    sl = M.as_seq(I, a, node)
    n = to_int(sl.n)
    i, j = z3.Int('i!bs%d' % I.ctx.counter.setdefault('bs', 0)), z3.Int('j!bs%d' % I.ctx.counter.setdefault('bs', 0))
    I.ctx.counter['bs'] += 1
    ei, ej = to_int(sl.elem(i)), to_int(sl.elem(j))
    if not I.pure:
        I.ctx.oblige(I.oname('call-pre[bisect_right:sorted]', line_of(node)),
                     z3.ForAll([i, j], z3.Implies(z3.And(0 <= i, i < j, j < n), ei <= ej)), 'call-pre', line_of(node))
    p = I.ctx.const('bisect', IntS)
    xv = to_int(x)
    I.ctx.assume(z3.And(p >= 0, p <= n))
    I.ctx.assume(z3.ForAll([i], z3.Implies(z3.And(i >= 0, i < p), ei <= xv), patterns=[ei]))
    I.ctx.assume(z3.ForAll([i], z3.Implies(z3.And(i >= p, i < n), ei > xv), patterns=[ei]))
    I.assumptions.add('bisect.bisect_right behaves as documented on a sorted list')
    return p


def _b_bisect_left(M, I, args, kw, node):
    """bisect.bisect_left(a, x) on a sorted list (documented contract): the insertion point p with
    all(e < x for e in a[:p]) and all(e >= x for e in a[p:])"""
    a, x = args[0], args[1]
    sl = M.as_seq(I, a, node)
    n = to_int(sl.n)
    i, j = z3.Int('i!bl%d' % I.ctx.counter.setdefault('bl', 0)), z3.Int('j!bl%d' % I.ctx.counter.setdefault('bl', 0))
    I.ctx.counter['bl'] += 1
    ei, ej = to_int(sl.elem(i)), to_int(sl.elem(j))
    if not I.pure:
        I.ctx.oblige(I.oname('call-pre[bisect_left:sorted]', line_of(node)),
                     z3.ForAll([i, j], z3.Implies(z3.And(0 <= i, i < j, j < n), ei <= ej)), 'call-pre', line_of(node))
    p = I.ctx.const('bisectl', IntS)
    xv = to_int(x)
    I.ctx.assume(z3.And(p >= 0, p <= n))
    I.ctx.assume(z3.ForAll([i], z3.Implies(z3.And(i >= 0, i < p), ei < xv), patterns=[ei]))
    I.ctx.assume(z3.ForAll([i], z3.Implies(z3.And(i >= p, i < n), ei >= xv), patterns=[ei]))
    I.assumptions.add('bisect.bisect_left behaves as documented on a sorted list')
    return p


def _b_from_bytes(M, I, args, kw, node):
    data = args[0]
    order = args[1] if len(args) > 1 else kw.get('byteorder', 'big')
    signed = kw.get('signed', False)
    if is_sym(order) or isinstance(order, Opaque):
        raise Unsupported('symbolic byte order')
    data = data if isinstance(data, SBytes) else M.to_sbytes(I, data)
    if not is_sym(data.n):
        return rd_int(data.arr, data.off, data.n, order == 'little', signed) if data.n else 0
    for n in range(0, 9):
        if I.ctx.branch(to_int(data.n) == n):
            return rd_int(data.arr, data.off, n, order == 'little', signed) if n else 0
    raise Unsupported('int.from_bytes of more than 8 bytes of symbolic length')


def rd_int(arr, off, n, little, signed):
    off = to_int(off)
    tot = z3.IntVal(0)
    for i in range(n):
        idx = off + (i if little else n - 1 - i)
        tot = tot + z3.Select(arr, idx) * (256 ** i)
    if signed:
        tot = z3.If(tot >= 2 ** (8 * n - 1), tot - 2 ** (8 * n), tot)
    return tot


import itertools
import math

_BUILTIN_TABLE = {
    len: _b_len, int: _b_int, bool: _b_bool, min: _b_minmax('min'), max: _b_minmax('max'),
    range: _b_range, isinstance: _b_isinstance, ord: _b_ord, bytes: _b_bytes, list: _b_list,
    tuple: _b_tuple, dict: _b_dict, set: _b_set, enumerate: _b_enumerate, zip: _b_zip, any: _b_any,
    all: _b_all, sum: _b_sum, abs: _b_abs, str: _b_str, repr: _b_repr, hasattr: _b_hasattr,
    getattr: _b_getattr, sorted: _b_sorted, divmod: _b_divmod, next: _b_next, iter: _b_iter,
    type: _b_type, print: _b_print, chr: _b_chr, map: _b_map, itertools.count: _b_count,
    math.ceil: _b_ceil, float: _b_float, bytearray: _b_bytearray, setattr: _b_setattr,
}
import struct as _struct_mod
_BUILTIN_TABLE[_struct_mod.unpack] = _b_struct_unpack
_BUILTIN_TABLE[int.from_bytes] = _b_from_bytes
import copy as _copy_mod
_BUILTIN_TABLE[_copy_mod.copy] = _b_copy
_BUILTIN_TABLE[_copy_mod.deepcopy] = _b_deepcopy
import bisect as _bisect_mod
_BUILTIN_TABLE[_bisect_mod.bisect_right] = _b_bisect_right
_BUILTIN_TABLE[_bisect_mod.bisect_left] = _b_bisect_left
import zlib as _zlib
_BUILTIN_TABLE[_zlib.decompressobj] = _b_decompressobj


crc_fn = z3.Function('crc32', ArrS, IntS, IntS, IntS, IntS)      # crc32 of arr[lo:hi] continued from an initial value


def _b_crc32(M, I, args, kw, node):
    """binascii.crc32(data, value=0) (assumed contract on the dependency: a running checksum, i.e.
    crc32(a + b, v) == crc32(b, crc32(a, v)) and crc32(b'', v) == v; result in [0, 2^32))"""
    data = args[0] if isinstance(args[0], SBytes) else M.to_sbytes(I, args[0])
    init = args[1] if len(args) > 1 else kw.get('value', 0)
    I.assumptions.add('binascii.crc32 is a running checksum: crc32(a + b, v) == crc32(b, crc32(a, v)), crc32(b"", v) == v')
    lo, n = to_int(data.off), to_int(data.n)
    hi = z3.simplify(lo + n)
    iv = to_int(init)
    # chaining: an initial value that is itself the checksum of the bytes just before this chunk extends that checksum
    if z3.is_app(iv) and iv.decl().eq(crc_fn) and iv.arg(0).eq(data.arr) and (I.pure or I.ctx.provable(iv.arg(2) == lo)):
        r = crc_fn(data.arr, iv.arg(1), hi, iv.arg(3))
    else:
        r = crc_fn(data.arr, lo, hi, iv)
    I.ctx.assume(z3.And(r >= 0, r < 2 ** 32))
    I.ctx.assume(z3.Implies(n == 0, r == iv))
    # ground instances of the chaining property for every checksum term of the same bytes known on this path:
    # if the initial value is the checksum of arr[a:lo] (from i0), the result is the checksum of arr[a:hi] (from i0)
    seen, stack, found = set(), list(I.ctx.pc), []
    while stack:
        t = stack.pop()
        if not z3.is_expr(t) or t.get_id() in seen:
            continue
        seen.add(t.get_id())
        if z3.is_app(t) and t.decl().eq(crc_fn) and t.arg(0).eq(data.arr) and not t.eq(r):
            found.append(t)
        if not z3.is_quantifier(t):
            stack.extend(t.children())
    for t in found[:8]:
        I.ctx.assume(z3.Implies(z3.And(t.arg(2) == lo, iv == t), r == crc_fn(data.arr, t.arg(1), hi, t.arg(3))))
    return r


import binascii as _binascii
_BUILTIN_TABLE[_binascii.crc32] = _b_crc32
