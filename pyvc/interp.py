"""Symbolic interpreter for the supported Python subset (DESIGN.md 2.3-2.5).
One instance executes one path of one function."""
import ast
import builtins
import importlib
import os
import z3

from . import bitops, extract
from .ctx import (Ctx, PathEnd, Unsupported, ReturnEx, BreakEx, ContinueEx, PyExc)
from .vals import (is_sym, is_intlike, is_boollike, is_strlike, to_int, to_bool, to_str,
                   zand, zor, znot, zite, Code, SBytes, SStream, SRec, SObj, SList, SDict,
                   SFunc, BoundMethod, StructRef, Opaque, SGen, SOpt, IntS, BoolS, StrS, ArrS)

_MISSING = object()


class Frame:
    def __init__(self, env=None, parent=None, func=None):
        self.env = dict(env or {})
        self.parent = parent
        self.func = func
        self.locals_assigned = set()

    def lookup(self, name):
        f = self
        while f is not None:
            if name in f.env:
                return f.env[name]
            f = f.parent
        return _MISSING


def assigned_names(node):
    """names bound anywhere in a function body (its locals), nested defs excluded"""
    out = set()

    def visit(n):
        for c in ast.iter_child_nodes(n):
            if isinstance(c, (ast.FunctionDef, ast.Lambda, ast.ClassDef)):
                if isinstance(c, ast.FunctionDef):
                    out.add(c.name)
                continue
            if isinstance(c, ast.Name) and isinstance(c.ctx, (ast.Store, ast.Del)):
                out.add(c.id)
            if isinstance(c, ast.ExceptHandler) and c.name:
                out.add(c.name)
            visit(c)
    visit(node)
    return out


def exc_subclass(cls, base):
    """cls, base: exception class names; uses the real classes"""
    if cls == base:
        return True
    a = EXC_CLASSES.get(cls)
    b = EXC_CLASSES.get(base)
    if a is None or b is None:
        return False
    return issubclass(a, b)


EXC_CLASSES = {n: getattr(builtins, n) for n in dir(builtins)
               if isinstance(getattr(builtins, n), type) and issubclass(getattr(builtins, n), BaseException)}


def register_exc_classes():
    import elftools.common.exceptions as E
    import elftools.construct.core as C
    import elftools.construct.adapters as A
    for m in (E, C, A):
        for n, v in vars(m).items():
            if isinstance(v, type) and issubclass(v, BaseException):
                EXC_CLASSES[n] = v
    import struct as _s
    EXC_CLASSES['error'] = _s.error
    import zlib as _z
    EXC_CLASSES['zlib.error'] = _z.error


class Interp:
    def __init__(self, ctx, module, registry, contract=None, pure=False, models=None):
        self.ctx = ctx
        self.module = module            # real imported module (globals for name lookup)
        self.registry = registry
        self.contract = contract
        self.pure = pure
        self.models = models
        self.loop_specs = {}
        self.loop_ordinals = {}
        self.comp_ordinals = {}
        self.not_evaluable = []
        self.nonneg_vars = set()
        self.bound_ids = set()
        self.bound_refs = []
        self.comp_specs = {}
        self.ghost = {}
        self.nyield = 0
        self.old_frame = None
        self.func_lineno = 0
        self.relpath = None
        self.qualname = None
        self.assumptions = set()
        self.yield_hook = None
        self.inline_depth = 0

    # ------------------------------------------------------------------ names
    def resolve_global(self, name, module=None):
        m = module or self.module
        if m is not None and name in vars(m):
            return vars(m)[name]
        if hasattr(builtins, name):
            return getattr(builtins, name)
        return _MISSING

    def oname(self, kind, line, idx=None):
        rel = (line - self.func_lineno) if line is not None else 0
        s = '%s:%s:%s@+%d' % (self.relpath, self.qualname, kind, rel)
        if idx is not None:
            s += ':%s' % idx
        return s

    # ------------------------------------------------------------ expressions
    def ev(self, e, fr):
        m = getattr(self, 'ev_' + type(e).__name__, None)
        if m is None:
            raise Unsupported('expression %s at line %s' % (type(e).__name__, getattr(e, 'lineno', '?')))
        return m(e, fr)

    def ev_Constant(self, e, fr):
        return e.value

    def ev_Name(self, e, fr):
        v = fr.lookup(e.id)
        if v is not _MISSING:
            return v
        if e.id in self.ghost:
            return self.ghost[e.id]
        if self.pure:
            from .contracts import SPEC_GLOBALS
            if e.id in SPEC_GLOBALS:
                return SPEC_GLOBALS[e.id]
        f = fr
        while f is not None:
            if e.id in f.locals_assigned:
                raise PyExc('UnboundLocalError', e.lineno, e.id)
            f = f.parent
        mod = None
        f = fr
        while f is not None:
            if f.func is not None and getattr(f.func, 'module', None) is not None:
                mod = f.func.module
                break
            f = f.parent
        if self.pure:
            # a contract clause names a local that the code has renamed since the committed baseline (see verify.local_alias);
            # looked up before globals and builtins: a local may bear a builtin's name (`map`)
            al = getattr(self, 'local_alias', None) or {}
            nm = e.id[len('final_'):] if e.id.startswith('final_') else e.id
            if nm in al and al[nm] != nm:
                import ast as _ast
                return self.ev_Name(_ast.copy_location(_ast.Name(id=('final_' if e.id.startswith('final_') else '') + al[nm], ctx=_ast.Load()), e), fr)
        v = self.resolve_global(e.id, mod)
        if v is _MISSING:
            if self.pure:
                raise Unsupported('unknown name %s in contract expression' % e.id)
            raise PyExc('NameError', e.lineno, e.id)
        return v

    def ev_Tuple(self, e, fr):
        return tuple(self.ev(x, fr) for x in e.elts)

    def ev_List(self, e, fr):
        return [self.ev(x, fr) for x in e.elts]

    def ev_Set(self, e, fr):
        return set(self.ev(x, fr) for x in e.elts)

    def ev_Dict(self, e, fr):
        d = {}
        for k, v in zip(e.keys, e.values):
            if k is None:
                d.update(self.ev(v, fr))
            else:
                d[self.ev(k, fr)] = self.ev(v, fr)
        return d

    def ev_JoinedStr(self, e, fr):
        return Opaque('fstring')

    def ev_Lambda(self, e, fr):
        return SFunc(e, fr, '<lambda>', self._frame_module(fr))

    def _frame_module(self, fr):
        f = fr
        while f is not None:
            if f.func is not None and getattr(f.func, 'module', None) is not None:
                return f.func.module
            f = f.parent
        return self.module

    def ev_IfExp(self, e, fr):
        c = self.truth(self.ev(e.test, fr))
        if isinstance(c, bool):
            return self.ev(e.body if c else e.orelse, fr)
        if self.pure:
            try:
                a = self.ev(e.body, fr)
            except PyExc as ex:
                if self.ctx.provable(znot(c)):
                    return self.ev(e.orelse, fr)
                raise
            try:
                b = self.ev(e.orelse, fr)
            except PyExc as ex:
                if self.ctx.provable(c):
                    return a
                raise
            return self.ite(c, a, b)
        return self.ev(e.body if self.ctx.branch(c) else e.orelse, fr)

    def ite(self, c, a, b):
        if isinstance(a, Code) != isinstance(b, Code) and (is_strlike(a) or is_strlike(b)):
            # an enum-coded value merged with a plain name: the name is the registered-name case of the coding
            if isinstance(a, Code):
                b = Code(True, to_str(b), 0)
            else:
                a = Code(True, to_str(a), 0)
        if isinstance(a, SOpt) or isinstance(b, SOpt):
            def parts(v, other):
                if isinstance(v, SOpt):
                    return v.isnone, v.val
                if v is None:
                    return True, (other.val if isinstance(other, SOpt) else None)
                return False, v
            an, av = parts(a, b)
            bn, bv = parts(b, a)
            return SOpt(zite(c, an, bn), av if av is bv else self.ite(c, av, bv))
        if isinstance(a, Code) and isinstance(b, Code):
            return Code(zite(c, a.isname, b.isname), zite(c, a.name, b.name), zite(c, a.raw, b.raw))
        if isinstance(a, SRec) and isinstance(b, SRec):
            if a.kind == b.kind and a.tag is None and b.tag is None and set(a.fields) == set(b.fields):
                return SRec({k: self.ite(c, a.fields[k], b.fields[k]) for k in a.fields}, a.kind)
            # records of different classes merge into a tagged record: the class and the presence
            # of each field follow the condition
            fields, present = {}, {}
            for k in list(a.fields) + [k for k in b.fields if k not in a.fields]:
                if k in a.fields and k in b.fields:
                    fields[k] = self.ite(c, a.fields[k], b.fields[k])
                else:
                    fields[k] = a.fields[k] if k in a.fields else b.fields[k]
                pa, pb = a.has(k), b.has(k)
                pr = pa if (pa is pb) else zite(c, pa, pb)
                if pr is not True:
                    present[k] = z3.simplify(pr) if is_sym(pr) else pr
            same = a.tag is None and b.tag is None and a.kind == b.kind
            return SRec(fields, a.kind if same else 'tagged',
                        None if same else z3.If(c, a.tag_term(), b.tag_term()), present)
        if isinstance(a, tuple) and isinstance(b, tuple) and len(a) == len(b):
            return tuple(self.ite(c, x, y) for x, y in zip(a, b))
        if isinstance(a, (SBytes, bytes)) and isinstance(b, (SBytes, bytes)) and (isinstance(a, SBytes) or isinstance(b, SBytes)):
            sa = a if isinstance(a, SBytes) else self.models.to_sbytes(self, a)
            sb = b if isinstance(b, SBytes) else self.models.to_sbytes(self, b)
            arr = sa.arr if sa.arr.eq(sb.arr) else z3.If(c, sa.arr, sb.arr)
            return SBytes(arr, zite(c, sa.off, sb.off), zite(c, sa.n, sb.n))
        if isinstance(a, (SList, list)) and isinstance(b, (SList, list)) and (isinstance(a, SList) or isinstance(b, SList)):
            def as_slist(v):
                if isinstance(v, SList):
                    return v
                vv = list(v)

                def el(i, vv=vv):
                    if not vv:
                        return z3.IntVal(0)
                    out = vv[-1]
                    for k in range(len(vv) - 2, -1, -1):
                        out = self.ite(to_int(i) == k, vv[k], out)
                    return out
                return SList(el, len(vv), 'lit')
            sa, sb = as_slist(a), as_slist(b)
            return SList(lambda i: self.ite(c, sa.elem(i), sb.elem(i)), zite(c, sa.n, sb.n), sa.name)
        if isinstance(a, SObj) and isinstance(b, SObj) and a.cls == b.cls:
            # instances of one class merge on the attributes both descriptions carry (a contract
            # shape lists only the attributes it talks about)
            out, dropped = {}, False
            for k in a.attrs:
                if k in b.attrs:
                    try:
                        out[k] = self.ite(c, a.attrs[k], b.attrs[k])
                    except Unsupported as ex:
                        # a component that cannot be merged under a quantifier-bound condition (streams of nested objects): the
                        # merged description does not carry it; reading it later is a contract-incomplete error, not a verdict
                        if 'quantifier-bound' not in str(ex):
                            raise
                        dropped = True
            o = SObj(a.cls, out)
            if dropped or getattr(a, 'from_shape', False) or getattr(b, 'from_shape', False):
                o.from_shape = True
            return o
        if isinstance(a, SObj) and isinstance(b, SObj):
            # instances of different classes (entries of one cache: CIE / FDE): the merged description carries the common
            # attributes whose values can be merged; reading any other attribute of it is a contract-incomplete error
            out = {}
            for k in a.attrs:
                if k in b.attrs:
                    try:
                        out[k] = self.ite(c, a.attrs[k], b.attrs[k])
                    except Unsupported:
                        pass
            o = SObj('%s|%s' % (a.cls, b.cls), out)
            o.from_shape = True
            return o
        if isinstance(a, (SDict, dict)) and isinstance(b, (SDict, dict)) and (isinstance(a, SDict) or isinstance(b, SDict)):
            def has(d, k):
                return d.has(k) if isinstance(d, SDict) else (k in d if not is_sym(k) else zor(*[self.equal(k, q) for q in d]))

            def get(d, k):
                if isinstance(d, SDict):
                    return d.get(k)
                if not is_sym(k):
                    return d.get(k)
                raise Unsupported('merge of a concrete dict looked up with a symbolic key')
            def mget(k):
                ha, hb = has(a, k), has(b, k)
                if ha is False:
                    return get(b, k)
                if hb is False:
                    return get(a, k)
                return self.ite(c, get(a, k), get(b, k))
            return SDict(lambda k: zite(c, has(a, k), has(b, k)), mget, getattr(a, 'name', 'map'))
        if (isinstance(a, Opaque) or isinstance(b, Opaque)) and self.mentions_bound(c):
            # under a quantifier no path fork is possible: the component stays uninterpreted
            return a if isinstance(a, Opaque) else b
        if a is b:
            return a
        try:
            return zite(c, a, b)
        except TypeError:
            # shape join of different kinds: fork instead
            if self.mentions_bound(c):
                raise Unsupported('values of different kinds merged under a quantifier-bound condition: %r / %r' % (a, b))
            return a if self.ctx.branch(c) else b

    def mentions_bound(self, c):
        """the condition contains a quantifier-bound variable of a contract expression"""
        if not is_sym(c) or not self.bound_ids:
            return False
        seen, stack = set(), [c]
        while stack:
            t = stack.pop()
            i = t.get_id()
            if i in seen:
                continue
            seen.add(i)
            if i in self.bound_ids:
                return True
            stack.extend(t.children())
        return False

    def ev_UnaryOp(self, e, fr):
        v = self.ev(e.operand, fr)
        if isinstance(e.op, ast.Not):
            return znot(self.truth(v))
        if isinstance(e.op, ast.Invert):
            if is_sym(v):
                return -to_int(v) - 1
            return ~v
        if isinstance(e.op, ast.USub):
            return -to_int(v) if is_sym(v) else -v
        if isinstance(e.op, ast.UAdd):
            return v
        raise Unsupported('unary op')

    def ev_BoolOp(self, e, fr):
        is_and = isinstance(e.op, ast.And)
        if self.pure:
            vals = []
            for x in e.values:
                try:
                    t = self.truth(self.ev(x, fr))
                except PyExc as ex:
                    # the operand is not evaluable here: legal only if the operands before it
                    # already decide the result on this path (short circuit)
                    sofar = zand(*vals) if is_and else zor(*vals)
                    decided = self.ctx.provable(znot(sofar) if is_and else sofar) if not isinstance(sofar, bool) \
                        else (sofar is (not is_and))
                    if decided:
                        vals.append(not is_and)
                        break
                    raise          # an enclosing operator may still short-circuit this operand away
                if is_and and t is False:
                    vals.append(False)
                    break
                if (not is_and) and t is True:
                    vals.append(True)
                    break
                vals.append(t)
            return zand(*vals) if is_and else zor(*vals)
        # value semantics with short circuit: forks
        last = None
        for i, x in enumerate(e.values):
            last = self.ev(x, fr)
            if i == len(e.values) - 1:
                return last
            t = self.truth(last)
            d = self.ctx.branch(t)
            if is_and and not d:
                return last if not is_sym(t) else self._falsy_of(last)
            if (not is_and) and d:
                return last
        return last

    def _falsy_of(self, v):
        # value of `a and b` when a is falsy: a itself; for leaf booleans give False
        if is_boollike(v):
            return False
        return v

    def ev_Compare(self, e, fr):
        l = self.ev(e.left, fr)
        res = []
        for op, r in zip(e.ops, e.comparators):
            rv = self.ev(r, fr)
            res.append(self.compare(op, l, rv, e))
            l = rv
        return zand(*res)

    def ev_BinOp(self, e, fr):
        l = self.ev(e.left, fr)
        r = self.ev(e.right, fr)
        return self.binop(e.op, l, r, e)

    def ev_Attribute(self, e, fr):
        b = self.ev(e.value, fr)
        return self.getattr(b, e.attr, e)

    def ev_Subscript(self, e, fr):
        b = self.ev(e.value, fr)
        if isinstance(e.slice, ast.Slice):
            lo = self.ev(e.slice.lower, fr) if e.slice.lower is not None else None
            hi = self.ev(e.slice.upper, fr) if e.slice.upper is not None else None
            st = self.ev(e.slice.step, fr) if e.slice.step is not None else None
            return self.models.getslice(self, b, lo, hi, st, e)
        k = self.ev(e.slice, fr)
        return self.models.getitem(self, b, k, e)

    def ev_Call(self, e, fr):
        # old(expr) in contracts
        if isinstance(e.func, ast.Name) and e.func.id == 'old' and self.pure:
            if self.old_frame is None:
                raise Unsupported('old() outside a postcondition')
            return self.ev(e.args[0], self.old_frame)
        if isinstance(e.func, ast.Name) and e.func.id in ('forall', 'exists') and self.pure:
            return self.quantifier(e, fr)
        if isinstance(e.func, ast.Name) and e.func.id == 'super' and not e.args and fr.lookup('super') is _MISSING:
            return self.make_super(fr, e)
        func = self.ev(e.func, fr) if not isinstance(e.func, ast.Attribute) else None
        args = []
        for a in e.args:
            if isinstance(a, ast.Starred):
                v = self.ev(a.value, fr)
                if not isinstance(v, (list, tuple)):
                    raise Unsupported('star-args of symbolic sequence')
                args.extend(v)
            else:
                args.append(self.ev(a, fr))
        kw = {}
        for k in e.keywords:
            if k.arg is None:
                d = self.ev(k.value, fr)
                if not isinstance(d, dict):
                    raise Unsupported('**kwargs of symbolic dict')
                kw.update(d)
            else:
                kw[k.arg] = self.ev(k.value, fr)
        if isinstance(e.func, ast.Attribute):
            obj = self.ev(e.func.value, fr)
            return self.models.call_method(self, obj, e.func.attr, args, kw, e, fr)
        return self.models.call(self, func, args, kw, e, fr)

    def make_super(self, fr, node):
        """zero-argument super() inside an inlined method"""
        f = fr
        while f is not None and (f.func is None or '.' not in (f.func.qualname or '')):
            f = f.parent
        if f is None:
            raise Unsupported('super() outside a method')
        clsname = f.func.qualname.split('.')[-2]
        slf = f.env.get('self')
        if slf is None:
            a = f.func.node.args.args
            slf = f.env.get(a[0].arg) if a else None
        return SuperProxy(slf, clsname)

    def quantifier(self, e, fr):
        """forall(lambda i: body, lo, hi) : bounded quantifier lo <= i < hi (pure only)"""
        lam = e.args[0]
        if not isinstance(lam, ast.Lambda):
            raise Unsupported('quantifier needs a lambda')
        names = [a.arg for a in lam.args.args]
        vs = [z3.Int('%s!q%d' % (n, self.ctx.counter.setdefault('q', 0))) for n in names]
        self.ctx.counter['q'] += 1
        nf = Frame(dict(zip(names, vs)), fr)
        for v in vs:
            self.bound_ids.add(v.get_id())
            self.bound_refs.append(v)       # keeps the term alive: z3 reuses the ids of freed terms
        rng = []
        rest = e.args[1:]
        for v, (lo, hi) in zip(vs, zip(rest[0::2], rest[1::2])):
            lov, hiv = self.ev(lo, fr), self.ev(hi, fr)
            if isinstance(lov, int) and isinstance(hiv, int) and hiv <= lov:
                return e.func.id == 'forall'       # empty range: the body is never evaluated
            rng.append(to_int(lov) <= v)
            rng.append(v < to_int(hiv))
            if isinstance(lov, int) and lov >= 0:
                self.nonneg_vars.add(v.get_id())      # (v is kept alive in bound_refs)
        body = self.truth(self.ev(lam.body, nf))
        body = to_bool(body)
        if e.func.id == 'forall':
            return z3.ForAll(vs, z3.Implies(z3.And(*rng) if rng else z3.BoolVal(True), body))
        return z3.Exists(vs, z3.And(*(rng + [body])))

    def ev_ListComp(self, e, fr):
        return self._comp(e, fr, list)

    def ev_GeneratorExp(self, e, fr):
        return self._comp(e, fr, list)

    def ev_SetComp(self, e, fr):
        return set(self._comp(e, fr, list))

    def ev_DictComp(self, e, fr):
        out = {}
        self._comp_rec(e.generators, 0, Frame({}, fr), lambda f: out.__setitem__(self.ev(e.key, f), self.ev(e.value, f)))
        return out

    def _comp(self, e, fr, ctor):
        blk = self._byte_block_comprehension(e, fr)
        if blk is not None:
            return blk
        spec = self.comp_specs.get(self.comp_ordinals.get(id(e)))
        if spec is not None:
            r = self._map_comprehension(e, fr, spec)
            if r is not None:
                return r
        out = []
        self._comp_rec(e.generators, 0, Frame({}, fr), lambda f: out.append(self.ev(e.elt, f)))
        return out

    def _map_comprehension(self, e, fr, spec):
        """[body(x) for x in xs] over a symbolic-length sequence, under a `maps` clause of the
        contract: the body is verified once for an arbitrary element (obligations map@line:i, with
        `value` the body's result), and the continuation gets a list of the declared element shape
        with the clauses assumed for every index.  Python semantics assumed: a comprehension
        evaluates its body once per element, in order, and collects the results; the body must not
        change state the continuation reads (its effects are not carried over)."""
        if len(e.generators) != 1 or e.generators[0].ifs:
            raise Unsupported('maps clause on a comprehension with filters or several generators')
        g = e.generators[0]
        it = self.ev(g.iter, fr)
        if isinstance(it, SGen):
            it = it.seq
        if not isinstance(it, SList):
            return None
        n = to_int(it.n)
        line = e.lineno
        from .stmts import gsub
        clauses = [gsub(x) for x in spec.get('ensures', [])]
        if self.ctx.branch(self.ctx.const('mapcheck', z3.BoolSort())):
            i = self.ctx.const('mi', IntS)
            self.ctx.assume(z3.And(i >= 0, i < n))
            f = Frame({}, fr)
            self.assign(g.target, it.elem(i), f)
            v = self.ev(e.elt, f)
            for k, x in enumerate(clauses):
                goal = self.goal(x, f, {'value': v, '_G_i': i})
                self.ctx.oblige(self.oname('map', line, k), goal, 'post', line)
            if spec.get('rep'):
                # the body may rebuild lazily built caches: their invariants hold after every element
                from .stmts import gsub as _g
                for opath, obj in self.models.rep_objects(fr):
                    for k, t in enumerate(getattr(obj, 'inv_texts', ())):
                        self.ctx.oblige(self.oname('map-rep-inv[%s]' % opath, line, k),
                                        self.goal(_g(t), Frame({'self': obj}, None)), 'post', line)
            raise PathEnd()
        from .shapes import _StableNames
        shape = spec['elem']
        base = self.ctx.fname('map%d[]' % line)
        mk = _StableNames(self.ctx)
        res = SList(lambda j, base=base: shape.make(mk, base, to_int(j)), it.n, 'map%d' % line)
        if spec.get('rep'):
            self.models.havoc_reps(self, fr)
        jv = z3.Int('j!map%d' % line)
        self.bound_ids.add(jv.get_id())
        self.bound_refs.append(jv)
        f = Frame({}, fr)
        self.assign(g.target, it.elem(jv), f)
        for x in clauses:
            body = self.as_goal(self.pure_eval(x, f, extra={'value': res.elem(jv), '_G_i': jv}))
            self.ctx.assume(z3.ForAll([jv], z3.Implies(z3.And(jv >= 0, jv < n), body)))
        return res

    def _byte_block_comprehension(self, e, fr):
        """[struct_parse(<one-byte unsigned struct>, stream) for _ in range(n)] with a symbolic n:
        the n bytes at the stream position (ELFParseError when fewer remain)"""
        if len(e.generators) != 1 or e.generators[0].ifs:
            return None
        g = e.generators[0]
        if not (isinstance(g.iter, ast.Call) and isinstance(g.iter.func, ast.Name) and g.iter.func.id == 'range'
                and len(g.iter.args) == 1):
            return None
        elt = e.elt
        if not (isinstance(elt, ast.Call) and isinstance(elt.func, ast.Name) and elt.func.id == 'struct_parse'
                and len(elt.args) == 2 and not elt.keywords):
            return None
        n = self.ev(g.iter.args[0], fr)
        if not is_sym(n):
            return None
        struct = self.ev(elt.args[0], fr)
        stream = self.ev(elt.args[1], fr)
        from .calls import LAYOUTS
        name = getattr(struct, 'name', None)
        ok = False
        if name in ('the_Dwarf_uint8', 'Dwarf_uint8', 'Elf_byte'):
            ok = True
        elif self.models.is_construct(struct):
            from . import k2
            ok = k2.normal_form(struct) == ('int', 1, False, 'le')
        if not ok or not isinstance(stream, SStream):
            return None
        nn = to_int(n)
        p = to_int(stream.pos)
        if self.ctx.branch(nn <= 0):
            return []
        if not self.ctx.branch(p + nn <= to_int(stream.length)):
            raise PyExc('ELFParseError', e.lineno, 'short read in byte block')
        arr = stream.arr
        stream.pos = z3.simplify(p + nn)
        return SList(lambda i, arr=arr, p=p: z3.Select(arr, p + to_int(i)), nn, 'bytes')

    def _comp_rec(self, gens, i, fr, emit):
        if i == len(gens):
            emit(fr)
            return
        g = gens[i]
        it = self.ev(g.iter, fr)
        seq = self.models.concrete_iter(self, it, g.iter)
        if seq is None:
            raise Unsupported('comprehension over a symbolic-length iterable (line %s)' % g.iter.lineno)
        for x in seq:
            self.assign(g.target, x, fr)
            ok = True
            for c in g.ifs:
                t = self.truth(self.ev(c, fr))
                if not (t if isinstance(t, bool) else self.ctx.branch(t)):
                    ok = False
                    break
            if ok:
                self._comp_rec(gens, i + 1, fr, emit)

    def ev_Starred(self, e, fr):
        raise Unsupported('starred expression')

    def ev_Yield(self, e, fr):
        v = self.ev(e.value, fr) if e.value is not None else None
        self._yield_frame = fr
        self.do_yield(v, e)
        return None

    def ev_YieldFrom(self, e, fr):
        v = self.ev(e.value, fr)
        seq = self.models.concrete_iter(self, v, e)
        if seq is None:
            raise Unsupported('yield from symbolic iterable')
        for x in seq:
            self.do_yield(x, e)
        return None

    def do_yield(self, v, node):
        if self.yield_hook is None:
            raise Unsupported('yield outside a generator contract')
        self.yield_hook(v, node)

    def live_frame(self, node):
        return getattr(self, '_yield_frame', None)

    # -------------------------------------------------------------- operators
    def truth(self, v):
        if isinstance(v, SOpt):
            return zand(znot(v.isnone), self.truth(v.val))
        if isinstance(v, bool):
            return v
        if v is None:
            return False
        if isinstance(v, int):
            return v != 0
        if isinstance(v, (str, bytes, tuple, list, dict, set, frozenset)):
            return len(v) != 0
        if is_sym(v):
            if z3.is_bool(v):
                return v
            if z3.is_int(v):
                return v != 0
            if z3.is_string(v):
                return z3.Length(v) != 0
        if isinstance(v, Code):
            return zor(zand(v.isname, z3.Length(v.name) != 0), zand(znot(v.isname), v.raw != 0))
        if isinstance(v, SBytes):
            n = v.n
            return (n != 0) if not is_sym(n) else (n != 0)
        if isinstance(v, SList):
            return v.n != 0
        if isinstance(v, (SRec, SObj, SFunc, SStream, StructRef, SGen)):
            if isinstance(v, SRec) and v.kind == 'Container':
                return len(v.fields) != 0
            return True
        if isinstance(v, Opaque):
            raise Unsupported('truth value of %r' % v)
        if callable(v) or isinstance(v, type):
            return True
        try:
            return bool(v)
        except Exception:
            raise Unsupported('truth value of %r' % (v,))

    def compare(self, op, l, r, node=None):
        t = type(op)
        if t in (ast.In, ast.NotIn):
            v = self.models.contains(self, r, l, node)
            return znot(v) if t is ast.NotIn else v
        if t in (ast.Is, ast.IsNot):
            v = self.identical(l, r)
            return znot(v) if t is ast.IsNot else v
        if t in (ast.Eq, ast.NotEq):
            v = self.equal(l, r)
            return znot(v) if t is ast.NotEq else v
        # ordering
        if isinstance(l, Code) or isinstance(r, Code):
            raise Unsupported('ordering comparison on enum-coded value (line %s)' % getattr(node, 'lineno', '?'))
        if l is None or r is None:
            raise PyExc('TypeError', getattr(node, 'lineno', None), 'ordering with None')
        if not is_sym(l) and not is_sym(r):
            try:
                return {ast.Lt: l < r, ast.LtE: l <= r, ast.Gt: l > r, ast.GtE: l >= r}[t]
            except TypeError:
                raise PyExc('TypeError', getattr(node, 'lineno', None), 'ordering')
        if is_strlike(l) or is_strlike(r):
            raise Unsupported('string ordering')
        a, b = to_int(l), to_int(r)
        return {ast.Lt: a < b, ast.LtE: a <= b, ast.Gt: a > b, ast.GtE: a >= b}[t]

    def identical(self, l, r):
        from .calls import TypeOf
        if isinstance(r, TypeOf):
            l, r = r, l
        if isinstance(l, TypeOf):
            if r is str:
                return l.v.isname
            if r is int:
                return znot(l.v.isname)
            return False
        if isinstance(r, SOpt) and not isinstance(l, SOpt):
            l, r = r, l
        if isinstance(l, SOpt):
            if r is None:
                return l.isnone
            if isinstance(r, SOpt):
                return zor(zand(l.isnone, r.isnone), zand(znot(l.isnone), znot(r.isnone), self.identical(l.val, r.val)))
            return zand(znot(l.isnone), self.identical(l.val, r))
        if l is None or r is None:
            return l is r
        if isinstance(l, (bool, int, str)) and isinstance(r, (bool, int, str)):
            return l is r or l == r
        if is_sym(l) or is_sym(r):
            return self.equal(l, r)
        return l is r

    def equal(self, l, r):
        if isinstance(r, SOpt) and not isinstance(l, SOpt):
            l, r = r, l
        if isinstance(l, SOpt):
            if r is None:
                return l.isnone
            if isinstance(r, SOpt):
                return zor(zand(l.isnone, r.isnone), zand(znot(l.isnone), znot(r.isnone), self.equal(l.val, r.val)))
            return zand(znot(l.isnone), self.equal(l.val, r))
        if isinstance(l, Opaque) or isinstance(r, Opaque):
            # a value the model does not interpret: its equality with anything is unknown, never "False"
            if l is r:
                return True
            if l is None or r is None:
                return False
            return self.ctx.const('eq!opaque', BoolS)
        if isinstance(l, Code):
            return l.eq(r)
        if isinstance(r, Code):
            return r.eq(l)
        if l is None or r is None:
            return l is r
        if isinstance(l, (SBytes, bytes)) or isinstance(r, (SBytes, bytes)):
            return self.models.bytes_eq(self, l, r)
        if is_sym(l) or is_sym(r):
            if is_strlike(l) != is_strlike(r):
                return False     # str vs int never equal
            if is_strlike(l):
                return to_str(l) == to_str(r)
            if is_boollike(l) and is_boollike(r):
                return to_bool(l) == to_bool(r)
            if (is_intlike(l) or is_boollike(l)) and (is_intlike(r) or is_boollike(r)):
                return to_int(l) == to_int(r)
            return False
        if isinstance(l, (tuple, list)) and isinstance(r, (tuple, list)):
            if type(l) is not type(r) or len(l) != len(r):
                return False
            return zand(*[self.equal(a, b) for a, b in zip(l, r)])
        if isinstance(l, (SRec, SObj, SStream, SList)) or isinstance(r, (SRec, SObj, SStream, SList)):
            if l is r:
                return True
            if isinstance(l, SRec) and isinstance(r, SRec) and set(l.fields) == set(r.fields):
                return zand(*[self.equal(l.fields[k], r.fields[k]) for k in l.fields])
            if isinstance(l, SList) or isinstance(r, SList):
                if isinstance(r, SList) and not isinstance(l, SList):
                    l, r = r, l
                if isinstance(r, (list, tuple)):
                    return zand(to_int(l.n) == len(r), *[self.equal(l.elem(z3.IntVal(i)), x) for i, x in enumerate(r)])
                if isinstance(r, SList):
                    i = z3.Int('i!leq%d' % self.ctx.counter.setdefault('leq', 0))
                    self.ctx.counter['leq'] += 1
                    return z3.And(to_int(l.n) == to_int(r.n),
                                  z3.ForAll([i], z3.Implies(z3.And(i >= 0, i < to_int(l.n)),
                                                            to_bool(self.equal(l.elem(i), r.elem(i))))))
                return False
            return False
        try:
            return bool(l == r)
        except Exception:
            raise Unsupported('equality of %r and %r' % (l, r))

    def binop(self, op, l, r, node=None):
        t = type(op)
        line = getattr(node, 'lineno', None)
        if isinstance(l, Opaque) or isinstance(r, Opaque):
            if t is ast.Mod and (isinstance(l, str) or isinstance(l, Opaque)):
                return Opaque('formatted')
            raise Unsupported('arithmetic on opaque value (line %s)' % line)
        if t is ast.Mod and isinstance(l, str):
            # string formatting: value is never inspected by the model
            self.assumptions.add('string formatting expressions evaluate without raising')
            return Opaque('formatted')
        if not any(is_sym(x) or isinstance(x, (SBytes, SList, Code, SRec, SObj)) for x in (l, r)):
            try:
                if t is ast.Add: return l + r
                if t is ast.Sub: return l - r
                if t is ast.Mult: return l * r
                if t is ast.FloorDiv: return l // r
                if t is ast.Mod: return l % r
                if t is ast.Pow: return l ** r
                if t is ast.BitAnd: return l & r
                if t is ast.BitOr: return l | r
                if t is ast.BitXor: return l ^ r
                if t is ast.LShift: return l << r
                if t is ast.RShift: return l >> r
                if t is ast.Div: return l / r
            except ZeroDivisionError:
                raise PyExc('ZeroDivisionError', line)
            except TypeError:
                raise PyExc('TypeError', line, 'binop')
            raise Unsupported('binop %s' % t.__name__)
        if isinstance(l, (SBytes, bytes)) and isinstance(r, (SBytes, bytes)) and t is ast.Add:
            return self.models.bytes_concat(self, l, r)
        if isinstance(l, (SBytes, bytes)) and t is ast.Mult:
            return self.models.bytes_repeat(self, l, r)
        if isinstance(l, (list, tuple)) and isinstance(r, (list, tuple)) and t is ast.Add:
            return l + r
        if isinstance(l, Code) or isinstance(r, Code):
            raise PyExc('TypeError', line, 'arithmetic on enum-coded value') if False else Unsupported(
                'arithmetic on enum-coded value (line %s)' % line)
        if is_strlike(l) and is_strlike(r) and t is ast.Add:
            return z3.Concat(to_str(l), to_str(r))
        if l is None or r is None:
            raise PyExc('TypeError', line, 'arithmetic with None')
        if not ((is_intlike(l) or is_boollike(l)) and (is_intlike(r) or is_boollike(r))):
            if (is_intlike(l) or is_strlike(l) or isinstance(l, SObj)) and (is_intlike(r) or is_strlike(r) or isinstance(r, SObj)):
                raise PyExc('TypeError', line, 'unsupported operand types')
            raise Unsupported('binop %s on %r, %r (line %s)' % (t.__name__, l, r, line))
        if t is ast.Add: return to_int(l) + to_int(r)
        if t is ast.Sub: return to_int(l) - to_int(r)
        if t is ast.Mult: return to_int(l) * to_int(r)
        if t in (ast.FloorDiv, ast.Mod):
            return self.divmod_(t, l, r, line)
        if t is ast.Pow:
            if not is_sym(l) and l == 2:
                return bitops.pow2(to_int(r))
            if not is_sym(r) and isinstance(r, int) and 0 <= r <= 4:
                x = to_int(l)
                out = z3.IntVal(1)
                for _ in range(r):
                    out = out * x
                return out
            raise Unsupported('symbolic power')
        if t is ast.LShift:
            if is_sym(r) and not self.pure:
                if self.ctx.branch(to_int(r) < 0):
                    raise PyExc('ValueError', line, 'negative shift count')
            return bitops.shl(l, r)
        if t is ast.RShift:
            if is_sym(r) and not self.pure:
                if self.ctx.branch(to_int(r) < 0):
                    raise PyExc('ValueError', line, 'negative shift count')
            return bitops.shr(l, r)
        if t in (ast.BitAnd, ast.BitOr, ast.BitXor):
            return self.bitop(t, l, r, line)
        if t is ast.Div:
            return FloatDiv(l, r)
        raise Unsupported('binop %s' % t.__name__)

    def divmod_(self, t, l, r, line):
        a, b = to_int(l), to_int(r)
        if is_sym(r):
            if self.pure:
                # specification: python floor semantics for either sign
                q = z3.If(b > 0, a / b, (-a) / (-b))
                m = a - b * q
                return q if t is ast.FloorDiv else m
            if self.ctx.branch(b == 0):
                raise PyExc('ZeroDivisionError', line)
            if self.ctx.branch(b > 0):
                return a / b if t is ast.FloorDiv else a % b
            q = (-a) / (-b)
            return q if t is ast.FloorDiv else a - b * q
        if r == 0:
            raise PyExc('ZeroDivisionError', line)
        if r > 0:
            return a / b if t is ast.FloorDiv else a % b
        q = (-a) / (-b)
        return q if t is ast.FloorDiv else a - b * q

    def bitop(self, t, l, r, line):
        name = {ast.BitAnd: 'and', ast.BitOr: 'or', ast.BitXor: 'xor'}[t]
        if is_sym(l) and not is_sym(r):
            l, r = r, l
        if not is_sym(l):          # constant with symbolic
            m = int(l)
            if name == 'and':
                return bitops.band_const(r, m)
            if name == 'or' and m >= 0:
                return bitops.bor_const(r, m)
            if name == 'xor' and m >= 0:
                return bitops.bxor_const(r, m)
            if name == 'or':       # m negative: x | m = ~(~x & ~m)
                return -(bitops.band_const(-to_int(r) - 1, ~m)) - 1
            raise Unsupported('xor with negative constant')
        a, b = to_int(l), to_int(r)
        # a & ~t = a - (a & t)   (valid for all integers)
        if name == 'and':
            for x, y in ((a, b), (b, a)):
                t2 = not_arg(y)
                if t2 is not None:
                    bitops._fired('and-not')
                    return x - to_int(self.bitop(ast.BitAnd, x, t2, line))
        if name == 'and':
            for x, y in ((a, b), (b, a)):
                ys = y
                s_ = shift_of(ys)
                if isinstance(s_, int) and s_ > 0:
                    for w in (1, 2, 4, 8):
                        if self.ctx.provable(z3.And(ys >= 0, ys < 2 ** (s_ + w), ys % (2 ** s_) == 0), timeout=1000):
                            return bitops.field_and(x, bitops.div_pow2(ys, s_), s_, w)
        # a ^ (t * 2^s) with a small t: only one field of a changes
        if name == 'xor':
            for x, y in ((a, b), (b, a)):
                ys = y
                s_ = shift_of(ys)
                if isinstance(s_, int) and s_ > 0:
                    for w in (1, 2, 4, 8):
                        if self.ctx.provable(z3.And(ys >= 0, ys < 2 ** (s_ + w), ys % (2 ** s_) == 0, x >= 0), timeout=1000):
                            return bitops.field_xor(x, bitops.div_pow2(ys, s_), s_, w)
        # rule 4: disjoint bits.  one operand is X * pow2(s) (or X * 2^c), the other in [0, 2^s)
        if name in ('or', 'xor'):
            for x, y in ((a, b), (b, a)):
                s = shift_of(y)
                if s is not None:
                    bound = (2 ** s) if isinstance(s, int) else bitops.pow2(s)
                    if self.ctx.provable(z3.And(x >= 0, x < bound)):
                        bitops._fired('disjoint-or')
                        return x + y
        # rule 5: both in a proven finite range
        for w in (8, 16, 32, 64, 128):
            lim = 2 ** w
            if self.ctx.provable(z3.And(a >= 0, a < lim, b >= 0, b < lim), timeout=1000):
                return bitops.bv_binop(name, a, b, w)
        # rule 6: uninterpreted with sound bounds only
        bitops._fired('uninterpreted-' + name)
        f = z3.Function('bit' + name, IntS, IntS, IntS)
        return f(a, b)

    # ----------------------------------------------------------- attributes
    def getattr(self, b, attr, node=None):
        return self.models.getattr(self, b, attr, node)

    # ------------------------------------------------------------ assignment
    def assign(self, t, v, fr):
        if isinstance(t, ast.Name):
            self.store_name(t.id, v, fr)
        elif isinstance(t, (ast.Tuple, ast.List)):
            seq = v
            if not isinstance(seq, (tuple, list)):
                seq = self.models.concrete_iter(self, v, t)
                if seq is None and isinstance(v, (SBytes, SList)) and not any(isinstance(x, ast.Starred) for x in t.elts):
                    # unpacking a sequence of unknown length into k targets: ValueError unless it has k elements
                    k = len(t.elts)
                    if not self.ctx.branch(to_int(v.n) == k):
                        raise PyExc('ValueError', getattr(t, 'lineno', None), 'wrong number of values to unpack')
                    seq = [v.at(i) if isinstance(v, SBytes) else v.elem(i) for i in range(k)]
                if seq is None:
                    raise Unsupported('unpacking a symbolic-length value')
            if len(seq) != len(t.elts):
                raise PyExc('ValueError', t.lineno, 'unpack')
            for tt, vv in zip(t.elts, seq):
                self.assign(tt, vv, fr)
        elif isinstance(t, ast.Attribute):
            b = self.ev(t.value, fr)
            self.models.setattr(self, b, t.attr, v, t)
        elif isinstance(t, ast.Subscript):
            b = self.ev(t.value, fr)
            if isinstance(t.slice, ast.Slice):
                raise Unsupported('slice assignment')
            k = self.ev(t.slice, fr)
            self.models.setitem(self, b, k, v, t)
        else:
            raise Unsupported('assignment target %s' % type(t).__name__)

    def store_name(self, name, v, fr):
        # python scoping: plain assignment binds in the current function frame
        # (nonlocal declarations are honoured through frame.nonlocals)
        f = fr
        nl = getattr(fr, 'nonlocals', None)
        if nl and name in nl:
            f = fr.parent
            while f is not None and name not in f.env and name not in f.locals_assigned:
                f = f.parent
            if f is None:
                f = fr
        f.env[name] = v


class SuperProxy:
    def __init__(self, obj, clsname):
        self.obj, self.clsname = obj, clsname


class FloatDiv:
    """result of true division a / b, only consumable by int()/math.ceil models"""

    def __init__(self, a, b):
        self.a, self.b = a, b


def not_arg(y):
    """t if y is syntactically ~t = -t - 1"""
    if not is_sym(y):
        return None
    ys = y
    if z3.is_add(ys) and ys.num_args() == 2:
        c = [ch for ch in ys.children() if z3.is_int_value(ch)]
        o = [ch for ch in ys.children() if not z3.is_int_value(ch)]
        if len(c) == 1 and len(o) == 1 and c[0].as_long() == -1:
            t = o[0]
            if z3.is_app(t) and t.decl().kind() == z3.Z3_OP_UMINUS:
                return t.arg(0)
            if z3.is_mul(t) and t.num_args() == 2 and z3.is_int_value(t.arg(0)) and t.arg(0).as_long() == -1:
                return t.arg(1)
    if z3.is_sub(ys) and ys.num_args() == 2 and z3.is_int_value(ys.arg(1)) and ys.arg(1).as_long() == 1:
        t = ys.arg(0)
        if z3.is_app(t) and t.decl().kind() == z3.Z3_OP_UMINUS:
            return t.arg(0)
    return None


def shift_of(y):
    """if y is syntactically a multiple of 2^s (X * pow2(s), X * 2^c, or a sum of
    such terms) return s (term) or c (int), else None"""
    if not is_sym(y):
        return None
    if z3.is_add(y):
        ss = [shift_of(ch) for ch in y.children()]
        if all(isinstance(x, int) for x in ss) and ss:
            return min(ss)
        return None
    if z3.is_mul(y):
        for ch in y.children():
            if z3.is_app(ch) and ch.decl().name() == 'pow2':
                return ch.arg(0)
            if z3.is_int_value(ch):
                v = ch.as_long()
                if v > 1 and v & (v - 1) == 0:
                    return v.bit_length() - 1
                if v < -1 and (-v) & (-v - 1) == 0:
                    return (-v).bit_length() - 1
    if z3.is_app(y) and y.decl().name() == 'pow2':
        return y.arg(0)
    if z3.is_app(y) and y.decl().kind() == z3.Z3_OP_UMINUS:
        return shift_of(y.arg(0))
    return None
