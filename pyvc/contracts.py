"""Contract registry and sidecar loader.

A contract is a class decorated with @contract(relpath, qualname, props=[...]).
Recognised attributes (all optional except params for K1 checking):
  params      dict name -> Shape   (shapes are type invariants = preconditions)
  requires    [expr strings]       evaluated in the entry state
  ensures     [expr strings]       evaluated at normal exit; `result`, old(...)
  raises      {ExcName: cond}      raises ExcName exactly when cond (entry state)
  may_raise   [ExcName]            may raise, condition unconstrained (weak)
  returns     Shape                shape of the result at call sites
  modifies    [paths]              state a call may change (havocked at call sites)
  loops       {ordinal: {invariant:[...], variant:expr, shapes:{}, modifies:[], unroll:N}}
  each_yield  [expr strings]       generator: asserted at every yield (`value`, `_n`)
  yield_shape Shape                generator: shape of elements at call sites
  inline      True                 call sites execute the real body in place
  mode        'check' | 'assume'   'assume' = contract used at call sites but not
                                   verified (listed as an unchecked assumption)
  ghost       {name: expr}         ghost variables initialised at entry
  unfold      [..]                 hints
  interference  bool               havoc stream positions at yields (default True)
  replay      python callable(model_values) -> dict   native replay hook
"""
import importlib
import os
import sys

REGISTRY = {}
BY_PROP = {}
SPEC_GLOBALS = {}


class Contract:
    def __init__(self, relpath, qualname, props, cls):
        self.relpath, self.qualname, self.props = relpath, qualname, list(props)
        self.key = (relpath, qualname)
        g = lambda n, d: getattr(cls, n, d)
        self.params = g('params', None)
        self.requires = list(g('requires', []))
        self.ensures = list(g('ensures', []))
        self.raises = dict(g('raises', {}))
        self.may_raise = list(g('may_raise', []))
        self.own_raises = dict(g('own_raises', {}))   # {Exc: cond}: raised by the function's own code (not a contracted callee) iff cond
        self.returns = g('returns', None)
        self.modifies = list(g('modifies', []))
        self.loops = dict(g('loops', {}))
        self.maps = dict(g('maps', {}))      # {ordinal of a comprehension: {elem: Shape, ensures: [...]}}
        self.each_yield = list(g('each_yield', []))
        self.yield_shape = g('yield_shape', None)
        self.inline = g('inline', False)
        self.mode = g('mode', 'check')
        self.ghost = dict(g('ghost', {}))
        self.interference = g('interference', True)
        self.replay = g('replay', None)
        self.facts = list(g('facts', []))
        self.havoc_shapes = dict(g('havoc_shapes', {}))   # {attribute path: Shape} used whenever the path is havocked
        self.rep_reader = g('rep_reader', False)     # may read (not write) representation fields directly
        self.pure_fn = g('pure', False)             # reads only (no stream is moved, nothing is modified): checked by the frame check + position comparison
        self.axioms = list(g('axioms', []))     # definitional axioms of specification functions (assumed at entry, listed)
        self.notes = g('notes', '')
        self.assumes = list(g('assumes', []))
        self.bounded = g('bounded', None)
        self.sets = dict(g('sets', {}))
        self.result_expr = g('result_expr', None)
        self.also_check = g('also_check', False)
        self.native_requires = list(g('native_requires', []))
        self.native_seeds = list(g('native_seeds', []))
        self.solver = dict(g('solver', {}))
        self.sets_if = dict(g('sets_if', {}))
        self.sets_shape = dict(g('sets_shape', {}))
        self.yield_havoc = list(g('yield_havoc', []))
        self.yield_invariant = list(g('yield_invariant', []))
        self.source_file = None
        self.name = cls.__name__

    def __repr__(self):
        return 'Contract(%s:%s)' % self.key


def contract(relpath, qualname, props=()):
    def deco(cls):
        c = Contract(relpath, qualname, props, cls)
        if c.key in REGISTRY:
            raise RuntimeError('duplicate contract for %s:%s' % c.key)
        REGISTRY[c.key] = c
        for p in c.props:
            BY_PROP.setdefault(p, []).append(c)
        return cls
    return deco


_loaded = False


def load_all(verif_root=None):
    global _loaded
    if _loaded:
        return
    root = verif_root or os.path.dirname(os.path.dirname(os.path.abspath(__file__)))
    if root not in sys.path:
        sys.path.insert(0, root)
    cdir = os.path.join(root, 'contracts')
    for fn in sorted(os.listdir(cdir)):
        if fn.endswith('.py') and not fn.startswith('_'):
            mod = importlib.import_module('contracts.' + fn[:-3])
            for n, v in vars(mod).items():
                if n.startswith('__'):
                    continue
                m = getattr(v, '__module__', None) or ''
                if m.startswith('specs') or (isinstance(v, (int, str, bytes, tuple, dict, frozenset)) and n.isupper()):
                    if n in SPEC_GLOBALS and SPEC_GLOBALS[n] is not v and SPEC_GLOBALS[n] != v:
                        raise RuntimeError('specification name %s defined twice' % n)
                    SPEC_GLOBALS[n] = v
            for c in REGISTRY.values():
                if c.source_file is None:
                    c.source_file = 'contracts/' + fn
    _loaded = True


def export_spec(*fns):
    """make specification functions visible to contract expressions"""
    for f in fns:
        SPEC_GLOBALS[f.__name__] = f
    return fns[0] if fns else None
