"""K2: structure obligations.  The real struct-factory code is run for every
configuration; the resulting construct tree is walked into a normal form and
compared with the specification layout (DESIGN.md 2.8).  Functions inside the
tree (lambdas, closures) are resolved to their source AST and proved equivalent
to the specification expression by the K1 evaluator (for all context values).

Normal form nodes (python tuples):
  ('int', nbytes, signed, endian)            endian in 'le','be' (1-byte: 'le')
  ('int24', endian)
  ('uleb',) ('sleb',)
  ('bytes', n | Fn)                          raw field
  ('enum', sub, decoding{int:name}, passthrough: bool)
  ('struct', [(name|None, node), ...])       embedded structs flattened
  ('array', n | Fn, sub)
  ('until', Fn, sub, inclusive: bool)
  ('prefixed', lensub, sub)
  ('cstring', terminators, encoding)
  ('string', n | Fn, encoding, padchar, paddir)
  ('pad', n | Fn, pattern, strict)
  ('value', Fn)
  ('offset',)                                stream offset / anchor
  ('switch', Fn key, {key: node}, default node | None)
  ('bits', [(name|None, width, enum-node|None, signed, swapped)])   Bitwise(Struct(BitField..))
  ('ifthenelse', Fn, then, else)
  ('initial_length', sub)
  ('peek', sub) / ('pointer', Fn, sub) / ('pass',) / ('computed-none',)
"""
import ast
import inspect
import os
import struct as _struct

import pyvc
from . import extract


class Fn:
    """a callable found in a construct tree"""

    def __init__(self, fn):
        self.fn = fn

    def __repr__(self):
        try:
            return 'Fn(%s:%d)' % (os.path.basename(self.fn.__code__.co_filename), self.fn.__code__.co_firstlineno)
        except Exception:
            return 'Fn(%r)' % (self.fn,)


class K2Error(Exception):
    pass


def _fmt_int(packer_format):
    f = packer_format
    if isinstance(f, bytes):
        f = f.decode()
    order, ch = f[0], f[1]
    table = {'B': (1, False), 'b': (1, True), 'H': (2, False), 'h': (2, True), 'L': (4, False), 'l': (4, True),
             'I': (4, False), 'i': (4, True), 'Q': (8, False), 'q': (8, True)}
    if ch not in table:
        raise K2Error('format char %r' % ch)
    n, signed = table[ch]
    if order == '=':
        import sys
        order = '<' if sys.byteorder == 'little' else '>'
    return ('int', n, signed, 'le' if (order == '<' or n == 1) else 'be')


_mods = None


def _m():
    global _mods
    if _mods is None:
        from elftools.construct import core, adapters
        from elftools.common import construct_utils as cu
        _mods = (core, adapters, cu)
    return _mods


def normal_form(con):
    core, adapters, cu = _m()
    t = type(con)
    name = t.__name__
    if t is core.FormatField:
        return _fmt_int(con.packer.format)
    if t is cu.ULEB128:
        return ('uleb',)
    if t is cu.SLEB128:
        return ('sleb',)
    if t is cu.UBInt24:
        return ('int24', 'be')
    if t is cu.ULInt24:
        return ('int24', 'le')
    if t is cu.StreamOffset or t is core.Anchor:
        return ('offset',)
    if t is core.StaticField:
        return ('bytes', con.length)
    if t is core.MetaField:
        return ('bytes', Fn(con.lengthfunc))
    if t is adapters.MappingAdapter:
        dec = dict(con.decoding)
        passthrough = con.decdefault is core.Pass
        if not passthrough and con.decdefault is not NotImplemented:
            return ('enum', normal_form(con.subcon), dec, ('default', con.decdefault))
        return ('enum', normal_form(con.subcon), dec, passthrough)
    if t is core.Reconfig:
        return normal_form(con.subcon)        # rename/embed handled by the parent via flags
    if t is core.Struct or t is core.Sequence:
        items = []
        for sc in con.subcons:
            nf = normal_form(sc)
            if sc.conflags & core.Construct.FLAG_EMBED and nf[0] == 'struct':
                items.extend(nf[1])
            elif sc.conflags & core.Construct.FLAG_EMBED and nf[0] in ('switch', 'ifthenelse'):
                items.append(('<embed>', nf))
            else:
                items.append((sc.name, nf))
        return ('struct' if t is core.Struct else 'sequence', items)
    if t is core.MetaArray:
        cf = con.countfunc
        cnt = _const_of(cf)
        return ('array', cnt if cnt is not None else Fn(cf), normal_form(con.subcon))
    if t is core.RepeatUntil:
        return ('until', Fn(con.predicate), normal_form(con.subcon), True)
    if t is cu.RepeatUntilExcluding:
        return ('until', Fn(con.predicate), normal_form(con.subcon), False)
    if t is adapters.CStringAdapter:
        sub = normal_form(con.subcon)
        if sub[0] != 'until' or sub[2] != ('bytes', 1):
            raise K2Error('CStringAdapter over unexpected %r' % (sub,))
        return ('cstring', _terminators_of(sub[1].fn), con.encoding)
    if t is adapters.StringAdapter:
        sub = normal_form(con.subcon)
        if sub[0] != 'bytes':
            raise K2Error('StringAdapter over %r' % (sub,))
        return ('string', sub[1], con.encoding, None, None)
    if t is adapters.PaddedStringAdapter:
        sub = normal_form(con.subcon)
        return ('string', sub[1], sub[2], con.padchar, con.paddir)
    if t is adapters.PaddingAdapter:
        sub = normal_form(con.subcon)
        if sub[0] != 'bytes':
            raise K2Error('PaddingAdapter over %r' % (sub,))
        return ('pad', sub[1], con.pattern, con.strict)
    if t is core.Value:
        ce = closure_env(con.func)
        if con.func.__code__.co_freevars == ('elsevalue',):
            return ('const', ce['elsevalue'])
        return ('value', Fn(con.func))
    if t is core.Switch:
        cases = {k: normal_form(v) for k, v in con.cases.items()}
        d = con.default
        dnf = None
        if d is not core.Switch.NoDefault:
            dnf = normal_form(d)
        if set(cases.keys()) == {True, False} and dnf is None:
            kf = con.keyfunc
            if kf.__code__.co_freevars == ('predicate',):      # IfThenElse macro wrapper: bool(predicate(ctx))
                kf = kf.__closure__[0].cell_contents
            return ('ifthenelse', Fn(kf), cases[True], cases[False])
        return ('switch', Fn(con.keyfunc), cases, dnf)
    if t is adapters.LengthValueAdapter:
        sub = normal_form(con.subcon)
        if sub[0] == 'sequence' and len(sub[1]) == 2 and sub[1][1][1][0] == 'array':
            cnt = sub[1][1][1][1]
            lname = sub[1][0][0]
            ok = isinstance(cnt, Fn) and closure_env(cnt.fn).get('name') == lname and \
                cnt.fn.__code__.co_freevars == ('name',)
            if not ok:
                raise K2Error('PrefixedArray count is not the length field')
            return ('prefixed', sub[1][0][1], sub[1][1][1][2])
        raise K2Error('LengthValueAdapter over %r' % (sub,))
    if t is core.Buffered or t is core.Restream:
        # Bitwise(...)
        sub = con.subcon
        return ('bits', _bits(sub))
    if name == '_InitialLengthAdapter':
        sub = normal_form(con.subcon)
        # Struct(first: u32, second: If(first == 0xFFFFFFFF, u64, None))
        try:
            (n1, f1), (n2, f2) = sub[1]
            ok = (n1, n2) == ('first', 'second') and f1[0] == 'int' and f1[1:3] == (4, False) and \
                f2[0] == 'ifthenelse' and f2[2][0] == 'int' and f2[2][1:3] == (8, False) and f2[3] == ('const', None) \
                and f2[2][3] == f1[3]
        except Exception:
            ok = False
        if not ok:
            return ('initial_length-unexpected-shape', sub)
        return ('initial_length', f1[3], f2[1])
    if t is core.Peek:
        return ('peek', normal_form(con.subcon))
    if t is core.Pointer:
        return ('pointer', Fn(con.offsetfunc), normal_form(con.subcon))
    if t is type(core.Pass):
        return ('pass',)
    if t is adapters.ExprAdapter:
        return ('expr', Fn(con._decode), normal_form(con.subcon))
    if t is adapters.IndexingAdapter:
        return ('index', con.index, normal_form(con.subcon))
    if t is adapters.ConstAdapter:
        return ('const', con.value, normal_form(con.subcon))
    if name == 'FormattedEntry' or hasattr(con, 'format_field'):
        return ('formatted', con.format_field)
    raise K2Error('unknown construct class %s' % name)


def _bits(sub):
    core, adapters, cu = _m()
    if type(sub) is not core.Struct:
        raise K2Error('Bitwise over %s' % type(sub).__name__)
    out = []
    for sc in sub.subcons:
        enum = None
        x = sc
        if type(x) is core.Reconfig:
            x = x.subcon
        if type(x) is adapters.MappingAdapter:
            enum = ('enum', None, dict(x.decoding), x.decdefault is core.Pass)
            x = x.subcon
        if type(x) is core.Reconfig:
            x = x.subcon
        if type(x) is adapters.BitIntegerAdapter:
            out.append((sc.name, x.width, enum, x.signed, x.swapped))
        elif type(x) is adapters.PaddingAdapter:
            n = normal_form(x)
            out.append((None, n[1], None, False, False))
        else:
            raise K2Error('bit struct member %s' % type(x).__name__)
    return out


def _const_of(fn):
    """Array(5, ...) wraps the constant in a lambda: recover it"""
    try:
        code = fn.__code__
        if code.co_freevars == ('count',) and fn.__closure__:
            v = fn.__closure__[0].cell_contents
            if isinstance(v, int):
                return v
    except Exception:
        pass
    return None


def _terminators_of(pred):
    try:
        i = pred.__code__.co_freevars.index('terminators')
        return pred.__closure__[i].cell_contents
    except Exception:
        raise K2Error('cannot read CString terminators')


# ----------------------------------------------------------- function source
def fn_ast(fn):
    """AST node (Lambda or FunctionDef) of a function object defined in /repo"""
    code = fn.__code__
    path = code.co_filename
    rel = os.path.relpath(path, pyvc.REPO)
    if rel.startswith('..'):
        raise K2Error('function not from repository: %s' % path)
    src, tree = extract.load(rel)
    line = code.co_firstlineno
    if code.co_name == '<lambda>':
        cands = [n for n in ast.walk(tree) if isinstance(n, ast.Lambda) and n.lineno <= line <= n.end_lineno]
        if not cands:
            raise K2Error('no lambda at %s:%d' % (rel, line))
        if len(cands) > 1:
            # disambiguate by the position of the first instruction
            pos = [p for p in code.co_positions() if p[0] is not None and p[2] is not None]
            best = None
            for (l0, l1, c0, c1) in pos[1:] or pos:
                for n in cands:
                    b = n.body
                    if (b.lineno, b.col_offset) <= (l0, c0) and (l1, c1) <= (b.end_lineno, b.end_col_offset):
                        if best is None or (n.end_lineno - n.lineno, n.end_col_offset - n.col_offset) < \
                                (best.end_lineno - best.lineno, best.end_col_offset - best.col_offset):
                            best = n
                if best is not None:
                    break
            if best is None:
                raise K2Error('ambiguous lambda at %s:%d' % (rel, line))
            return best, rel
        return cands[0], rel
    cands = [n for n in ast.walk(tree) if isinstance(n, ast.FunctionDef) and n.name == code.co_name
             and n.lineno <= line <= n.end_lineno]
    # decorators shift co_firstlineno; pick the innermost match
    if not cands:
        raise K2Error('no def %s at %s:%d' % (code.co_name, rel, line))
    cands.sort(key=lambda n: n.end_lineno - n.lineno)
    return cands[0], rel


def closure_env(fn):
    env = {}
    if fn.__closure__:
        for n, c in zip(fn.__code__.co_freevars, fn.__closure__):
            try:
                env[n] = c.cell_contents
            except ValueError:
                pass
    return env


def fn_equiv(real_fn, spec_fn_text, params, shapes, requires=(), name='fn'):
    """prove: for all context values of the given shapes, real_fn(args) == spec expression.
    params: parameter names of the real function in order (e.g. ['ctx'] or ['obj','ctx'])
    shapes: dict param -> Shape ; spec_fn_text: expression over the same names.
    returns obligation dict."""
    import time
    import z3
    from .ctx import Ctx, PathEnd, Unsupported, PyExc, ReturnEx
    from .stmts import Exec
    from .interp import Frame
    from .verify import Models, ground_facts, model_dict
    from .contracts import REGISTRY
    from .vals import SFunc
    t0 = time.time()
    node, rel = fn_ast(real_fn)
    module = inspect.getmodule(real_fn)
    pending = [[]]
    verdict = 'proved'
    detail = None
    npaths = 0
    try:
        while pending:
            prefix = pending.pop()
            npaths += 1
            ctx = Ctx(prefix, pending)
            I = Exec(ctx, module, REGISTRY, None, models=Models(REGISTRY))
            I.calls = I.models
            I.relpath, I.qualname = rel, name
            try:
                vals = [shapes[p].make(ctx, p) for p in params]
                fr0 = Frame(dict(zip(params, vals)), None)
                for r in requires:
                    ctx.assume(I.as_goal(I.pure_eval(r, fr0)))
                cf = Frame(closure_env(real_fn), None, func=SFunc(node, None, name, module))
                sf = SFunc(node, cf, name, module)
                exc = None
                try:
                    got = I.call_sfunc(sf, list(vals), {}, None)
                except PyExc as e:
                    exc = e
                if exc is not None:
                    s = z3.Solver()
                    for p in ctx.pc:
                        s.add(p)
                    if s.check() != z3.unsat:
                        verdict = 'refuted'
                        detail = 'real function raises %s' % exc.cls
                        break
                    continue
                want = I.pure_eval(spec_fn_text, fr0)
                eq = I.equal(got, want)
                goal = I.as_goal(eq)
                s = z3.Solver()
                s.set('timeout', 10000)
                for p in ctx.pc:
                    s.add(p)
                for f in ground_facts(ctx.pc + [goal], ctx.byte_arrays):
                    s.add(f)
                s.add(z3.Not(goal))
                r = s.check()
                if r == z3.sat:
                    verdict = 'refuted'
                    detail = dict(model=model_dict(s.model()), got=str(got)[:200], want=str(want)[:200])
                    break
                if r != z3.unsat:
                    verdict = 'undecided'
                    detail = s.reason_unknown()
            except PathEnd:
                continue
    except Unsupported as e:
        return dict(name=name, kind='K2-fn', verdict='error', error='unsupported: %s' % e, time=time.time() - t0)
    return dict(name=name, kind='K2-fn', verdict=verdict, backend='z3', time=round(time.time() - t0, 4),
                detail=detail, paths=npaths)


# --------------------------------------------------------------- comparison
def compare(real, spec, path, out, fn_checks):
    """structural comparison of two normal forms; Fn leaves on the spec side are
    FnSpec objects queued for semantic equivalence."""
    if isinstance(spec, FnSpec):
        if not isinstance(real, Fn):
            cv = spec.const_value()
            if cv is not None and cv == real:
                return
            out.append('%s: expected a function %s, found %r' % (path, spec.text, real))
            return
        fn_checks.append((path, real, spec))
        return
    if isinstance(real, Fn):
        out.append('%s: unexpected function %r where %r expected' % (path, real, spec))
        return
    if isinstance(spec, tuple) and spec and spec[0] == 'enum' and isinstance(real, tuple) and real and real[0] == 'enum':
        if spec[1] is not None or real[1] is not None:
            compare(real[1], spec[1], path + '/enum-sub', out, fn_checks)
        compare_enum(real[2], real[3], spec[2], spec[3], path, out)
        if len(spec) > 4:
            for v, n in sorted(spec[4].items(), key=repr):
                if real[2].get(v) != n:
                    out.append('%s: enum decodes %r to %r; the specific table names it %r, which takes precedence' % (path, v, real[2].get(v), n))
                    break
        return
    if type(real) != type(spec):
        out.append('%s: %r != %r' % (path, _short(real), _short(spec)))
        return
    if isinstance(spec, tuple):
        if len(real) != len(spec):
            out.append('%s: %r != %r' % (path, _short(real), _short(spec)))
            return
        tag = spec[0] if spec and isinstance(spec[0], str) else ''
        for i, (a, b) in enumerate(zip(real, spec)):
            compare(a, b, '%s/%s%d' % (path, tag, i) if i else path + '/' + str(tag), out, fn_checks)
        return
    if isinstance(spec, list):
        if len(real) != len(spec):
            out.append('%s: %d members %s, expected %d %s' % (
                path, len(real), [x[0] if isinstance(x, tuple) else x for x in real],
                len(spec), [x[0] if isinstance(x, tuple) else x for x in spec]))
            return
        for i, (a, b) in enumerate(zip(real, spec)):
            nm = b[0] if isinstance(b, tuple) and b and (isinstance(b[0], str) or b[0] is None) else i
            compare(a, b, '%s[%s]' % (path, nm), out, fn_checks)
        return
    if isinstance(spec, dict):
        if set(real.keys()) != set(spec.keys()):
            out.append('%s: keys %r != %r' % (path, sorted(map(repr, real.keys()))[:12], sorted(map(repr, spec.keys()))[:12]))
            return
        for k in spec:
            compare(real[k], spec[k], '%s{%r}' % (path, k), out, fn_checks)
        return
    if real != spec:
        out.append('%s: %r != %r' % (path, real, spec))


def compare_enum(dec, passthrough, source_dict, want_pass, path, out):
    """the real decoding map must be a reverse of the named source dictionary:
    every registered value decodes to one of the names registered for it
    (aliases allowed), nothing else is mapped."""
    src = {k: v for k, v in source_dict.items() if k != '_default_'}
    want_vals = set(src.values())
    if set(dec.keys()) != want_vals:
        extra = sorted(set(dec.keys()) - want_vals, key=repr)[:6]
        miss = sorted(want_vals - set(dec.keys()), key=repr)[:6]
        out.append('%s: enum decoding keys differ (unexpected %r, missing %r)' % (path, extra, miss))
        return
    for v, n in dec.items():
        if src.get(n, object()) != v:
            out.append('%s: enum decodes %r to %r which the dictionary does not register for it' % (path, v, n))
            return
    if passthrough != want_pass:
        out.append('%s: enum default is %r, expected pass-through=%r' % (path, passthrough, want_pass))


def _short(x):
    s = repr(x)
    return s if len(s) < 160 else s[:160] + '...'


class FnSpec:
    """specification of a function inside a layout: expression text over the
    named parameters, shapes of those parameters"""

    def __init__(self, text, params=('ctx',), shapes=None, requires=()):
        self.text, self.params, self.shapes, self.requires = text, list(params), shapes or {}, list(requires)

    def const_value(self):
        try:
            return ast.literal_eval(self.text)
        except Exception:
            return None

    def __repr__(self):
        return 'FnSpec(%s)' % self.text


def check_layout(name, real_con, spec_nf, ctx_shapes=None):
    """one K2 obligation: normal_form(real) == spec, plus one per function leaf"""
    import time
    t0 = time.time()
    obs = []
    try:
        real = normal_form(real_con)
    except K2Error as e:
        return [dict(name=name, kind='K2', verdict='error', error=str(e), time=0)]
    out, fn_checks = [], []
    compare(real, spec_nf, name, out, fn_checks)
    obs.append(dict(name=name + ':layout', kind='K2', verdict='proved' if not out else 'refuted',
                    backend='ground-eval', time=round(time.time() - t0, 4),
                    detail=out[:8] if out else None))
    for path, rfn, spec in fn_checks:
        shapes = dict(spec.shapes)
        r = fn_equiv(rfn.fn, spec.text, spec.params, shapes, spec.requires, name=path + ':fn')
        if r['verdict'] == 'error':
            r['verdict'] = 'undecided'
            r['reason'] = r.pop('error')
        obs.append(r)
    return obs


def layout_from_nf(nf):
    """K1 layout of a concrete primitive construct (used by struct_parse on
    inline-constructed fields such as ULInt8(''))"""
    from .calls import Layout
    from . import shapes as S
    if nf[0] == 'int':
        _, n, signed, _e = nf
        lay = Layout('prim_%s%d_%s' % ('s' if signed else 'u', n * 8, nf[3]),
                     S.S(n * 8) if signed else S.U(n * 8), size=n)
        return lay
    raise K2Error('no inline layout for %r' % (nf,))


# ------------------------------------------------------------ native differential
def differential(real_con, spec_nf, rng, n=40, maxlen=320):
    """run the real parser and Sem(spec) on concrete byte strings; return the first
    disagreement as a native replay record, or None"""
    import io
    from specs import sem
    from elftools.construct import ConstructError
    for i in range(n):
        ln = rng.choice([0, 1, 3, 4, 8, 12, 16, 24, 40, 64, 128, maxlen])
        mode = rng.random()
        data = None
        if i % 2 == 0:
            # input valid for the specification layout, followed by random trailing bytes
            try:
                raw, _v = sem.gen(spec_nf, rng, None, 0)
                data = raw + bytes(rng.randrange(256) for _ in range(rng.choice([0, 0, 5, 40])))
                if rng.random() < 0.15 and raw:
                    data = raw[:rng.randrange(len(raw))]          # truncated
            except Exception:
                data = None
        if data is not None:
            pass
        elif mode < 0.15:
            data = bytes(ln)
        elif mode < 0.3:
            data = bytes([0xff]) * ln
        elif mode < 0.5:
            data = bytes(rng.choice([0, 1, 2, 3, 4, 5, 0x7f, 0x80, 0xff]) for _ in range(ln))
        else:
            data = bytes(rng.randrange(256) for _ in range(ln))
        st = io.BytesIO(data)
        try:
            rv = real_con.parse_stream(st)
            rend = st.tell()
            rerr = None
        except ConstructError as e:
            rv, rend, rerr = None, None, e
        except Exception as e:
            rv, rend, rerr = None, None, e
        try:
            sv, send = sem.decode(spec_nf, data, 0, None)
            serr = None
        except sem.Fail as e:
            sv, send, serr = None, None, e
        except sem.DontCare:
            continue
        except Exception as e:
            return dict(confirmed=False, error='Sem crashed: %r' % (e,))
        if (rerr is None) != (serr is None):
            if rerr is not None and not isinstance(rerr, ConstructError):
                return dict(confirmed=True, input=data.hex(), observed='real parser raised %r' % (rerr,),
                            expected='Sem: %r' % (sv if serr is None else serr,))
            return dict(confirmed=True, input=data.hex(),
                        observed=('real parser raised %r' % (rerr,)) if rerr is not None else 'real parser returned %r' % (rv,),
                        expected=('Sem fails: %s' % serr) if serr is not None else 'Sem = %r, end %d' % (sv, send))
        if rerr is None:
            if rend != send or not sem.same(rv, sv):
                return dict(confirmed=True, input=data.hex(), observed='real parser: %r, end %d' % (rv, rend),
                            expected='Sem: %r, end %d' % (sv, send))
    return None
