"""Bitwise operators on mathematical (unbounded, two's complement) integers,
rewritten to div/mod arithmetic (DESIGN.md 2.4).  Every rule is a lemma of
/verif/lemmas (checked by lemmas/check_bitops.py on bit-vectors for all widths
up to 128 and by exhaustive small-integer enumeration including negatives)."""
import z3
from .vals import to_int, is_sym

pow2 = z3.Function('pow2', z3.IntSort(), z3.IntSort())
RULES_FIRED = {}


def _fired(rule):
    RULES_FIRED[rule] = RULES_FIRED.get(rule, 0) + 1


def mask_ranges(m):
    """constant non-negative mask -> list of (lo, width) runs of set bits"""
    runs = []
    i = 0
    while m >> i:
        if (m >> i) & 1:
            j = i
            while (m >> j) & 1:
                j += 1
            runs.append((i, j - i))
            i = j
        else:
            i += 1
    return runs


def band_const(x, m):
    """x & m for a constant m; valid for every integer x (rule 3)."""
    x = to_int(x)
    if m >= 0:
        _fired('and-const')
        tot = z3.IntVal(0)
        for lo, w in mask_ranges(m):
            tot = tot + ((x / (2 ** lo)) % (2 ** w)) * (2 ** lo)
        return z3.simplify(tot)
    # m negative: x & m = x - (x & ~m), ~m >= 0
    _fired('and-negconst')
    return x - band_const(x, ~m)


def bor_const(x, m):
    """x | m = x + m - (x & m)  (rule 3)"""
    _fired('or-const')
    return to_int(x) + m - band_const(x, m)


def bxor_const(x, m):
    """x ^ m = x + m - 2*(x & m)"""
    _fired('xor-const')
    return to_int(x) + m - 2 * band_const(x, m)


def shl(x, k):
    if not is_sym(k):
        if k < 0:
            raise ValueError('negative shift count')
        _fired('shl-const')
        return to_int(x) * (2 ** k)
    _fired('shl-sym')
    return to_int(x) * pow2(k)


def div_pow2(x, k):
    """x / 2^k, exact simplification when x is syntactically E * 2^m with m >= k"""
    x = to_int(x)
    if z3.is_mul(x) and x.num_args() == 2:
        for i in (0, 1):
            c, e = x.arg(i), x.arg(1 - i)
            if z3.is_int_value(c):
                v = c.as_long()
                if v > 0 and v & (v - 1) == 0 and v.bit_length() - 1 >= k:
                    m = v.bit_length() - 1 - k
                    return e if m == 0 else e * (2 ** m)
    return x / (2 ** k)


def shr(x, k):
    if not is_sym(k):
        if k < 0:
            raise ValueError('negative shift count')
        _fired('shr-const')
        return div_pow2(x, k)      # SMT div == floor div for positive divisor
    _fired('shr-sym')
    return to_int(x) / pow2(k)


def bv_binop(op, a, b, width):
    """rule 5: both operands proven in [0, 2^width)"""
    _fired('bv-%s-%d' % (op, width))
    A = z3.Int2BV(to_int(a), width)
    B = z3.Int2BV(to_int(b), width)
    r = {'and': A & B, 'or': A | B, 'xor': A ^ B}[op]
    return z3.BV2Int(r, False)


def field_xor(a, t, s, w):
    """a ^ (t * 2^s) for 0 <= t < 2^w: only the w-bit field of a at bit s changes;
    the field XOR is written bit by bit in arithmetic (lemma field-xor)"""
    _fired('field-xor-%d' % w)
    a, t = to_int(a), to_int(t)
    f = (a / (2 ** s)) % (2 ** w)
    x = z3.IntVal(0)
    for i in range(w):
        fi = (f / (2 ** i)) % 2
        ti = (t / (2 ** i)) % 2
        x = x + ((fi + ti) % 2) * (2 ** i)
    return a + (x - f) * (2 ** s)


def field_and(a, t, s, w):
    """a & (t * 2^s) for 0 <= t < 2^w: the w-bit field of a at bit s ANDed with t, shifted back"""
    _fired('field-and-%d' % w)
    a, t = to_int(a), to_int(t)
    f = (a / (2 ** s)) % (2 ** w)
    x = z3.IntVal(0)
    for i in range(w):
        fi = (f / (2 ** i)) % 2
        ti = (t / (2 ** i)) % 2
        x = x + z3.If(fi + ti == 2, 1, 0) * (2 ** i)
    return x * (2 ** s)
