"""Value model of the symbolic interpreter.

Structure is kept on the Python side, only leaves are SMT terms (DESIGN.md 2.3):
  int  -> python int | z3 Int        bool -> python bool | z3 Bool
  str  -> python str | z3 String     None -> None
  Code -> enum-coded value: a registered name (String) or a raw integer
  SBytes  -> view (array, offset, length) on an SMT array Int->Int (bytes 0..255)
  SStream -> (array, length, position) mutable
  SRec    -> Container-like record, fields on the Python side
  SObj    -> instance of a repository class: class name + attribute dict
  SList   -> python list of values (concrete length) or symbolic (array fn, length)
"""
import z3

IntS = z3.IntSort()
BoolS = z3.BoolSort()
StrS = z3.StringSort()
ArrS = z3.ArraySort(IntS, IntS)


def is_sym(v):
    return isinstance(v, z3.ExprRef)


def is_intlike(v):
    return (isinstance(v, int) and not isinstance(v, bool)) or (is_sym(v) and z3.is_int(v))


def is_boollike(v):
    return isinstance(v, bool) or (is_sym(v) and z3.is_bool(v))


def is_strlike(v):
    return isinstance(v, str) or (is_sym(v) and z3.is_string(v))


def to_int(v):
    if isinstance(v, bool):
        return z3.IntVal(int(v))
    if isinstance(v, int):
        return z3.IntVal(v)
    if is_sym(v):
        if z3.is_bool(v):
            return z3.If(v, z3.IntVal(1), z3.IntVal(0))
        if z3.is_int(v):
            return v
    raise TypeError('to_int: %r' % (v,))


def to_bool(v):
    if isinstance(v, bool):
        return z3.BoolVal(v)
    if is_sym(v) and z3.is_bool(v):
        return v
    raise TypeError('to_bool: %r' % (v,))


def to_str(v):
    if isinstance(v, str):
        return z3.StringVal(v)
    if is_sym(v) and z3.is_string(v):
        return v
    raise TypeError('to_str: %r' % (v,))


def zand(*xs):
    out = []
    for x in xs:
        if x is True:
            continue
        if x is False:
            return False
        out.append(x)
    if not out:
        return True
    return out[0] if len(out) == 1 else z3.And(*out)


def zor(*xs):
    out = []
    for x in xs:
        if x is False:
            continue
        if x is True:
            return True
        out.append(x)
    if not out:
        return False
    return out[0] if len(out) == 1 else z3.Or(*out)


def znot(x):
    if isinstance(x, bool):
        return not x
    return z3.Not(x)


def zimplies(a, b):
    if a is True:
        return b
    if a is False:
        return True
    if b is True:
        return True
    return z3.Implies(a, to_bool(b))


def zite(c, a, b):
    """if-then-else on leaf values"""
    if c is True:
        return a
    if c is False:
        return b
    if is_boollike(a) and is_boollike(b):
        return z3.If(c, to_bool(a), to_bool(b))
    if is_strlike(a) and is_strlike(b):
        return z3.If(c, to_str(a), to_str(b))
    return z3.If(c, to_int(a), to_int(b))


class Code:
    """Value produced by an Enum adapter with pass-through default: either a
    registered name or the raw integer.  isname: Bool, name: String, raw: Int.
    Python equality Code == 'X' is (isname and name=='X'); Code == 5 is
    (not isname and raw==5) exactly as str/int comparison behaves in CPython."""
    __slots__ = ('isname', 'name', 'raw', 'cands')

    def __init__(self, isname, name, raw):
        self.isname, self.name, self.raw = isname, name, raw
        self.cands = None

    def eq(self, other):
        if isinstance(other, Code):
            return zor(zand(self.isname, other.isname, self.name == other.name),
                       zand(znot(self.isname), znot(other.isname), self.raw == other.raw))
        if is_strlike(other):
            return zand(self.isname, self.name == to_str(other))
        if is_intlike(other) or is_boollike(other):
            return zand(znot(self.isname), self.raw == to_int(other))
        if other is None:
            return False
        raise TypeError('Code.eq %r' % (other,))

    def __repr__(self):
        return 'Code(%s,%s,%s)' % (self.isname, self.name, self.raw)


class SBytes:
    """bytes value: elements arr[off+i] for 0 <= i < n."""
    __slots__ = ('arr', 'off', 'n')

    def __init__(self, arr, off, n):
        self.arr, self.off, self.n = arr, off, n

    def at(self, i):
        return z3.Select(self.arr, to_int(self.off) + to_int(i))

    def __repr__(self):
        return 'SBytes(%s,%s,%s)' % (self.arr, self.off, self.n)


class SStream:
    """io.BytesIO-like stream (assumed contract on a dependency, DESIGN.md 7):
    read(n) returns B[pos:min(pos+n,len)] and advances by the returned length."""

    def __init__(self, arr, length, pos, name='stream'):
        self.arr, self.length, self.pos, self.name = arr, length, pos, name
        self.closed = False

    def __repr__(self):
        return 'SStream(%s,len=%s,pos=%s)' % (self.arr, self.length, self.pos)


KIND_IDS = {}


def kind_id(name):
    """small integer standing for a record class name in tagged records"""
    return KIND_IDS.setdefault(name, len(KIND_IDS) + 1)


class SRec:
    """Container-like record; item and attribute access coincide.
    A record merged from records of different classes (namedtuple kinds) is tagged: `tag` is the
    integer term of its class (kind_id), `present[f]` the condition under which field f exists."""

    def __init__(self, fields=None, kind='Container', tag=None, present=None):
        self.fields = dict(fields or {})
        self.kind = kind
        self.tag = tag
        self.present = dict(present or {})

    def tag_term(self):
        return self.tag if self.tag is not None else z3.IntVal(kind_id(self.kind))

    def has(self, f):
        """condition under which the field exists"""
        if f not in self.fields:
            return False
        return self.present.get(f, True)

    def __repr__(self):
        return 'SRec(%s)' % (self.fields,)


class SOpt:
    """None or a value, kept symbolic (inside sequence elements, where a path fork per element is
    impossible): isnone is a Bool term, val the value when present"""

    def __init__(self, isnone, val):
        self.isnone, self.val = isnone, val

    def __repr__(self):
        return 'SOpt(%s,%r)' % (self.isnone, self.val)


class SObj:
    """Instance of a repository class."""

    def __init__(self, cls, attrs=None, ctor_args=None, ctor_kw=None):
        self.cls = cls            # class name (str)
        self.attrs = dict(attrs or {})
        self.ctor_args = ctor_args
        self.ctor_kw = ctor_kw

    def __repr__(self):
        return 'SObj(%s,%s)' % (self.cls, sorted(self.attrs))


class SList:
    """Symbolic-length sequence: element i is elem(i) (a python callable from an
    index term to a value), length n.  Concrete python lists are used whenever
    the length is concrete."""

    def __init__(self, elem, n, name='seq'):
        self.elem, self.n, self.name = elem, n, name

    def __repr__(self):
        return 'SList(%s,n=%s)' % (self.name, self.n)


class SDict:
    """Symbolic dict abstracted by a python-side membership/lookup pair of
    callables: has(k)->Bool, get(k)->value.  Used for lazily built name maps."""

    def __init__(self, has, get, name='map'):
        self.has, self.get, self.name = has, get, name


class SFunc:
    """Closure: AST node (FunctionDef/Lambda) + defining frame."""

    def __init__(self, node, frame, qualname, module):
        self.node, self.frame, self.qualname, self.module = node, frame, qualname, module


class BoundMethod:
    def __init__(self, obj, name):
        self.obj, self.name = obj, name


class StructRef:
    """A construct object reached symbolically (self.structs.Elf_Shdr)."""

    def __init__(self, name, owner=None):
        self.name, self.owner = name, owner

    def __repr__(self):
        return 'StructRef(%s)' % self.name


class DynStruct:
    """Struct(name, *members) built at run time from member constructs reached symbolically (field factories of a
    structs object applied to a member name, nested DynStruct / DynSwitch): parsed member by member, in order, into a
    Container keyed by the member names -- construct's Struct semantics"""

    def __init__(self, name, members):
        self.field_name, self.members = name, members

    def __repr__(self):
        return 'DynStruct(%s)' % self.field_name


class DynSwitch:
    """Switch(name, keyfunc, cases): the member construct is selected by keyfunc(context) among the cases; no default"""

    def __init__(self, name, keyfunc, cases):
        self.field_name, self.keyfunc, self.cases = name, keyfunc, cases


class Opaque:
    """A value the model does not interpret."""

    def __init__(self, what):
        self.what = what

    def __repr__(self):
        return 'Opaque(%s)' % self.what


class SGen:
    """Suspended generator produced by a contracted callee: a sequence."""

    def __init__(self, seq):
        self.seq = seq


def view_args(b):
    """arguments (array, offset, length) of an uninterpreted function over a bytes view;
    the offset of an empty view is normalised to 0 (an empty bytes object has no position)"""
    n = to_int(b.n)
    off = to_int(b.off)
    return (b.arr, z3.If(n == 0, z3.IntVal(0), off), n)


class AbstractParser:
    """an operand parser taken from a dispatch table whose entries are the subject of separate (K2) obligations:
    applied to a stream at position p it leaves the stream at end(B, p, key) >= p and returns args(B, p, key)"""

    def __init__(self, table, key):
        self.table, self.key = table, key


class FormParser:
    """structs.Dwarf_dw_form[form]: the operand parser of an attribute form, abstract in K1: value and end are
    functions of (bytes, position, form name, format, address size, version); the real form table is the K2
    obligation per (format, address size, version)"""

    def __init__(self, name, owner):
        self.name, self.owner = name, owner          # name: z3 String term or python str
