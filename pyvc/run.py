"""Orchestrator: runs every obligation source of a property, writes evidence,
decides the exit code (DESIGN.md 2.9):
  0 all proved (known findings printed) / 1 violation / 2 undecided / 3 checker error
"""
import argparse
import fnmatch
import hashlib
import json
import multiprocessing
import os
import re
import sys
import time
import traceback

import pyvc
from pyvc import contracts

ROOT = pyvc.ROOT
# where evidence/ and replays/ are written: /verif itself, or a scratch directory for runs against a patched copy
# (seeded changes, canaries), so that they never overwrite the evidence of the real tree
OUT = os.environ.get('VERIF_OUT') or ROOT
REPO = pyvc.REPO

TASKS = []          # non-K1 obligation sources: dict(name, props, fn, kind)


def task(name, props, kind='K2'):
    def deco(fn):
        TASKS.append(dict(name=name, props=list(props), fn=fn, kind=kind))
        return fn
    return deco


def load_tasks():
    import importlib
    tdir = os.path.join(ROOT, 'tasks')
    if os.path.isdir(tdir):
        for fn in sorted(os.listdir(tdir)):
            if fn.endswith('.py') and not fn.startswith('_'):
                importlib.import_module('tasks.' + fn[:-3])


def _k1_worker(args):
    key, timeout_ms, tier = args
    try:
        from pyvc import verify
        c = contracts.REGISTRY[key]
        res = verify.check(c, None, timeout_ms, second_opinion=(tier == 'thorough'))
        d = res.to_json()
        if res.error is None:
            from pyvc import native
            native.post_process(c, d, tier)
        return d
    except Exception as e:
        return dict(key='%s:%s' % key, error='crash: %s\n%s' % (e, traceback.format_exc()), obligations=[],
                    assumptions=[], paths=0, normal_exits=0, exc_exits={}, bounded=False, src=None, wall=0,
                    rules={}, props=[], mode='check', contract_file=None)


def _task_worker(args):
    idx, tier, seed = args
    t = TASKS[idx]
    t0 = time.time()
    try:
        out = t['fn'](tier=tier, seed=seed)
        out.setdefault('name', t['name'])
        out.setdefault('kind', t['kind'])
        out.setdefault('error', None)
        out['wall'] = round(time.time() - t0, 3)
        return out
    except Exception as e:
        tb = traceback.extract_tb(e.__traceback__)
        if t['kind'] == 'bounded' and tb and '/elftools/' in tb[-1].filename.replace(os.sep, '/'):
            # a bounded differential feeds the real code inputs generated from the specification; an exception RAISED BY THE
            # REAL CODE that the harness did not anticipate is a behaviour of the library on such an input, not a defect of
            # the checker: reported as a refuted bounded obligation with the traceback (an exception raised in /verif code is
            # still a checker error)
            where = '%s:%d in %s' % (tb[-1].filename, tb[-1].lineno, tb[-1].name)
            nat = dict(confirmed=True, how='bounded differential %s (seed %r, tier %s): the real code raised on a generated input' % (t['name'], seed, tier),
                       input='re-run: ./check <property> --tier %s --only %s' % (tier, t['name']), observed='%r at %s' % (e, where),
                       expected='the answer the specification gives for the generated input')
            ob = dict(name='bounded:%s:real code raised' % t['name'], kind='bounded', verdict='refuted', backend='ground-eval(seeded differential)',
                      time=0.0, bounded=True, detail=('%r at %s\n%s' % (e, where, traceback.format_exc()))[:1500], native=nat)
            return dict(name=t['name'], kind=t['kind'], error=None, obligations=[ob], assumptions=[],
                        functions=[dict(function=t['name'], kind='bounded differential')], wall=round(time.time() - t0, 3))
        return dict(name=t['name'], kind=t['kind'], error='crash: %s\n%s' % (e, traceback.format_exc()),
                    obligations=[], assumptions=[], wall=round(time.time() - t0, 3))


def load_known():
    p = os.path.join(ROOT, 'known_findings.json')
    if not os.path.exists(p):
        return []
    return json.load(open(p)).get('findings', [])


def match_known(known, prop, ob):
    for k in known:
        if k.get('status') != 'finding':
            continue
        if k.get('property') != prop:
            continue
        if fnmatch.fnmatchcase(ob['name'], k['obligation']):
            return k
    return None


def sanitize(name):
    return re.sub(r'[^A-Za-z0-9_.+-]+', '_', name)[:150]


_BASELINE = None


def load_baseline():
    global _BASELINE
    if _BASELINE is None:
        try:
            _BASELINE = json.load(open(os.path.join(ROOT, 'baseline_counts.json')))
        except Exception:
            _BASELINE = {}
    return _BASELINE


def run_property(prop, tier, seed, only=None, jobs=None):
    t0 = time.time()
    import shutil
    shutil.rmtree(os.path.join(OUT, 'replays', prop), ignore_errors=True)
    contracts.load_all()
    load_tasks()
    timeout_ms = 10000 if tier == 'quick' else 60000
    ks = [c.key for c in contracts.BY_PROP.get(prop, []) if c.mode == 'check' and (not c.inline or c.also_check)]
    if only:
        ks = [k for k in ks if only in k[1] or only in k[0]]
    tidx = [i for i, t in enumerate(TASKS) if prop in t['props'] and (not only or only in t['name'])]
    jobs = jobs or min(16, max(1, len(ks) + len(tidx)))
    ctx = multiprocessing.get_context('fork')
    k1, tres = [], []
    if ks or tidx:
        with ctx.Pool(jobs) as pool:
            r1 = pool.map_async(_k1_worker, [(k, timeout_ms, tier) for k in ks], chunksize=1)
            r2 = pool.map_async(_task_worker, [(i, tier, seed) for i in tidx], chunksize=1)
            limit = 1500 if tier == 'quick' else 7200
            try:
                k1 = r1.get(timeout=limit)
                tres = r2.get(timeout=limit)
            except multiprocessing.TimeoutError:
                pool.terminate()
                print('CHECKER-ERROR: obligation sources did not finish within %d s' % limit)
                return 3
    rc_missing = []
    if not only:
        have = {r['key'] for r in k1}
        for key in load_baseline().get(prop, {}):
            if key not in have:
                rc_missing.append('%s: under contract in the committed baseline but no contract produced obligations for it now' % key)
    return finish(prop, tier, seed, k1, tres, t0, rc_missing, partial=bool(only))


def finish(prop, tier, seed, k1, tres, t0, extra_errors=(), partial=False):
    known = load_known()
    errors, obligations, assumptions = list(extra_errors), [], set()
    functions, bounded = [], []
    solver_time = 0.0
    by_backend = {}
    for r in k1:
        if r.get('error'):
            errors.append('%s: %s' % (r['key'], r['error']))
        functions.append(dict(function=r['key'], source=r.get('src'), paths=r.get('paths'),
                              normal_exits=r.get('normal_exits'), exceptional_exits=r.get('exc_exits'),
                              contract=r.get('contract_file'),
                              obligations=len(r.get('obligations', [])),
                              distinct_obligations=len({o['name'] for o in r.get('obligations', [])}),
                              bounded=r.get('bounded', False), wall_s=r.get('wall'),
                              native=r.get('native')))
        for a in r.get('assumptions', []):
            assumptions.add('%s: %s' % (r['key'], a))
        if r.get('error') is None and not r.get('obligations'):
            errors.append('%s: zero obligations generated (vacuous)' % r['key'])
        # guard against silently losing obligations: for unchanged source the number of obligation instances may not
        # drop below the committed baseline (baseline_counts.json, regenerated deliberately with tools/gen_baseline.py)
        base = load_baseline().get(prop, {}).get(r['key'])
        if base and r.get('error') is None and r.get('src') and base.get('hash') == r['src'].get('hash') \
                and len({o['name'] for o in r.get('obligations', [])}) < base.get('names', 0):
            errors.append('%s: %d distinct obligations generated, the committed baseline for this unchanged source has %d '
                          '(obligations were lost: contract or engine regression)' % (
                              r['key'], len({o['name'] for o in r.get('obligations', [])}), base['names']))
        if r.get('error') is None and not r.get('normal_exits') and not r.get('exc_exits'):
            errors.append('%s: no path reaches an exit (vacuous)' % r['key'])
        if r.get('error') is None and not r.get('normal_exits') and r.get('expects_return'):
            errors.append('%s: the contract has postconditions but no explored path returns normally '
                          '(vacuous postconditions: an assumed fact contradicts the path, or every path raises)' % r['key'])
        for o in r.get('obligations', []):
            o = dict(o)
            o['source'] = r['key']
            o['bounded'] = bool(r.get('bounded'))
            obligations.append(o)
    # preconditions: a `requires` clause of a contract is an obligation at every call site under contract (call-pre[...]); at
    # an entry point -- a function no contracted caller of this check calls -- it is an ASSUMPTION about the caller (well-formed
    # input, a consistent object), and is listed as one
    established = set()
    for o in obligations:
        m = re.search(r':call-pre\[([^\]:]+(?:\.[^\]:]+)*):(\d+)\]', o['name'])
        if m:
            established.add((m.group(1), int(m.group(2))))
    for r in k1:
        rel, _, qn = r['key'].partition(':')
        c = contracts.REGISTRY.get((rel, qn))
        if c is None or c.mode != 'check' or c.inline:
            continue
        for i, clause in enumerate(c.requires):
            if (qn, i) not in established:
                assumptions.add('%s: ENTRY PRECONDITION (no caller under contract in this check establishes it; assumed of the caller): %s'
                                % (r['key'], clause))
    for r in tres:
        if r.get('error'):
            errors.append('%s: %s' % (r['name'], r['error']))
        for a in r.get('assumptions', []):
            assumptions.add('%s: %s' % (r['name'], a))
        if r.get('error') is None and not r.get('obligations') and not r.get('skipped'):
            errors.append('%s: zero obligations generated (vacuous)' % r['name'])
        functions.extend(r.get('functions', []))
        for o in r.get('obligations', []):
            o = dict(o)
            o['source'] = r['name']
            o.setdefault('bounded', False)
            obligations.append(o)
    # aggregate by obligation name (a name may occur once per path)
    agg = {}
    for o in obligations:
        a = agg.setdefault(o['name'], dict(name=o['name'], kind=o.get('kind'), source=o['source'], verdicts=[],
                                           time=0.0, backend=o.get('backend', 'z3'), bounded=o['bounded'],
                                           instances=[]))
        a['verdicts'].append(o['verdict'])
        a['time'] += o.get('time', 0.0)
        a['instances'].append(o)
    proved = refuted = undecided = 0
    violations, known_hits, undecided_list = [], [], []
    nbounded = 0
    # A refuted K1 obligation is reported as a violation when its counter-model replays on the real code, or when it is a
    # statement about the function's behaviour (postcondition, raises clause, frame, callee precondition) that held on the
    # unchanged tree.  When an INDUCTIVENESS obligation of the same function is refuted as well (inv-init / inv-pres / variant /
    # step / loop-exit / loop-break) and no counter-model of the function replays, the loop annotations no longer fit the code
    # (a rewritten loop, a renamed counter): the models are states the loop may never reach, every clause proved from the
    # annotations is unreliable, and the function is UNDECIDED (exit 2), not violated.  The bounded differentials of the
    # property decide such a tree with a failing input.
    import re as _re
    _ind = _re.compile(r':(inv-init|inv-pres|variant|step|loop-exit|loop-break)@')
    per_fn = {}
    for name, a in agg.items():
        # (an obligation that a recorded known finding names is that finding, whatever its kind: it neither triggers nor
        # undergoes the demotion)
        if not a['bounded'] and 'refuted' in a['verdicts'] and match_known(known, prop, a) is None:
            per_fn.setdefault(a['source'], []).append(a)
    demoted = set()
    for src, obs_ in per_fn.items():
        confirmed = any((i.get('native') or {}).get('confirmed') for a in obs_ for i in a['instances'] if i['verdict'] == 'refuted')
        if not confirmed and any(_ind.search(a['name']) for a in obs_):
            for a in obs_:
                demoted.add(a['name'])
    rule6 = set()
    for name, a in agg.items():
        if a['bounded'] or 'refuted' not in a['verdicts'] or match_known(known, prop, a) is not None:
            continue
        ref = [i for i in a['instances'] if i['verdict'] == 'refuted']
        if ref and all(i.get('rule6') and not (i.get('native') or {}).get('confirmed') for i in ref):
            rule6.add(name)
    for name, a in sorted(agg.items()):
        solver_time += a['time']
        vs = a['verdicts']
        if name in rule6 and name not in demoted:
            a['verdict'] = 'undecided'
            a['reason'] = ('the counter-model interprets an uninterpreted bit operator (rule 6 of the bit-operator encoding) and does '
                           'not replay on the real code: undecided, not violated')
        elif name in demoted:
            a['verdict'] = 'undecided'
            a['reason'] = ('loop annotations of %s are no longer inductive for the current source and no counter-model replays on the '
                           'real code: undecided, not violated' % a['source'])
        elif 'refuted' in vs:
            a['verdict'] = 'refuted'
        elif 'undecided' in vs:
            a['verdict'] = 'undecided'
        else:
            a['verdict'] = 'proved'
        if a['bounded']:
            nbounded += 1
        if a['verdict'] == 'proved':
            if not a['bounded']:
                proved += 1
                by_backend[a['backend']] = by_backend.get(a['backend'], 0) + 1
        elif a['verdict'] == 'refuted':
            refuted += 1
            inst = [i for i in a['instances'] if i['verdict'] == 'refuted'][0]
            k = match_known(known, prop, a)
            if k is not None:
                known_hits.append((k, a))
            else:
                violations.append((a, inst))
        else:
            undecided += 1
            undecided_list.append(a)
    # bounded stand-ins and recorded known findings are reported separately, never among the proof obligations
    nobl = len(agg) - nbounded - len([1 for k, a in known_hits if not a['bounded']])
    # ---- output
    os.makedirs(os.path.join(OUT, 'evidence'), exist_ok=True)
    rdir = os.path.join(OUT, 'replays', prop)
    lines = []
    for k, a in known_hits:
        lines.append('KNOWN-FINDING: property=%s %s [%s]' % (prop, k.get('what', ''), a['name']))
    for a, inst in violations:
        os.makedirs(rdir, exist_ok=True)
        path = os.path.join(rdir, sanitize(a['name']) + '.json')
        rep = dict(property=prop, obligation=a['name'], source=a['source'], verdict='refuted',
                   model=inst.get('model'), native=inst.get('native'), detail=inst.get('detail'),
                   solver_output=inst.get('solver_output'), extra=inst.get('extra'))
        json.dump(rep, open(path, 'w'), indent=1, default=str)
        nat = inst.get('native') or {}
        suffix = '' if nat.get('confirmed') else ' no-failing-input-found'
        lines.append('VIOLATION property=%s replay=%s%s' % (prop, os.path.relpath(path, OUT), suffix))
    samples = []
    for name, a in list(sorted(agg.items()))[:6]:
        samples.append(dict(obligation=name, kind=a['kind'], verdict=a['verdict'], backend=a['backend'],
                            solver_s=round(a['time'], 4)))
    level = 'proof'
    discharged = proved
    explanation = None
    if nbounded and nbounded == nobl:
        level = 'other'
    cov = dict(obligations=nobl, discharged=discharged,
               checker_cmd='./check %s --tier %s' % (prop, tier),
               trusted_base=TRUSTED_BASE,
               functions_under_contract=functions,
               discharged_by_backend=by_backend,
               solver_time_s=round(solver_time, 3),
               refuted=refuted, undecided=undecided,
               bounded_obligations=nbounded,
               known_findings=[dict(obligation=a['name'], what=k.get('what')) for k, a in known_hits],
               undecided_obligations=[a['name'] for a in undecided_list][:50],
               samples=samples,
               explanation='proved = obligations generated from /repo working tree and discharged (unsat of the negation); '
                           'bounded stand-ins are counted separately and never as proved; obligations matching '
                           'known_findings.json are real divergences of the unchanged tree from the property and are '
                           'reported as KNOWN-FINDING, not counted as discharged',
               exhaustive=False)
    ev = dict(property_id=prop, tier=tier, seed=seed, level=level, coverage=cov,
              assumptions=sorted(assumptions) + GLOBAL_ASSUMPTIONS,
              wall_s=round(time.time() - t0, 2), violations=len(violations))
    if errors:
        ev['coverage']['checker_errors'] = errors[:50]
    # a run restricted with --only is a development aid: its (partial) evidence never replaces the property's evidence file
    json.dump(ev, open(os.path.join(OUT, 'evidence', prop + ('.partial.json' if partial else '.json')), 'w'), indent=1, default=str)
    for l in lines:
        print(l)
    print('[%s] obligations=%d proved=%d refuted=%d (known=%d) undecided=%d bounded=%d errors=%d functions=%d wall=%.1fs'
          % (prop, nobl, proved, refuted, len(known_hits), undecided, nbounded, len(errors), len(functions),
             time.time() - t0))
    for e in errors[:20]:
        print('CHECKER-ERROR: ' + e.splitlines()[0][:300])
    for a in undecided_list[:20]:
        print('UNDECIDED: ' + a['name'])
    if violations:
        return 1
    if errors:
        return 3
    if undecided:
        return 2
    if nobl <= 0 and nbounded <= 0:
        print('CHECKER-ERROR: no obligations for property %s' % prop)
        return 3
    return 0


TRUSTED_BASE = [
    'pyvc VC generator: encoding of the Python subset (DESIGN.md 2.3-2.7), cross-checked against CPython, not verified',
    'z3 4.x/5.1 (cvc5 as second opinion in thorough tier)',
    'CPython semantics of the subset; io.BytesIO, struct, bisect, zlib, binascii as documented',
    'specification functions and registries under /verif/specs and /verif/registry (transcriptions of the standards)',
]
GLOBAL_ASSUMPTIONS = [
    'Python integers are unbounded: integer arithmetic in VCs is mathematical and exact; file-format wrap-around is explicit mod 2^n in the specifications',
    'exception-message expressions evaluate without raising (values dropped by extraction)',
    'attribute reads have no side effects on the classes under contract; no threads; no monkeypatching',
]


def main(argv=None):
    ap = argparse.ArgumentParser()
    ap.add_argument('prop')
    ap.add_argument('--tier', default=os.environ.get('VERIF_TIER', 'quick'))
    ap.add_argument('--only', default=None)
    ap.add_argument('--jobs', type=int, default=None)
    ap.add_argument('--replay', default=None)
    a = ap.parse_args(argv)
    seed = int(os.environ.get('VERIF_SEED', '0') or 0)
    if a.replay:
        from pyvc import native
        return native.replay_file(a.replay)
    try:
        return run_property(a.prop, a.tier, seed, a.only, a.jobs)
    except Exception as e:
        print('CHECKER-ERROR: %s' % e)
        traceback.print_exc()
        return 3


if __name__ == '__main__':
    sys.exit(main())
