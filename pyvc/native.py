"""Native side of the contracts: the same contract text evaluated by CPython on
the real function.  Used for (a) replaying solver counterexamples against the
real code, (b) the bounded concrete search when a model does not replay,
(c) the CPython cross-check of the encoder / validation of contracts.
Never counted as proof."""
import ast
import importlib
import io
import json
import os
import random
import re
import traceback

import pyvc
from . import extract, shapes as S
from .stmts import gsub

REPO = pyvc.REPO


NATIVE_TIME_LIMIT = 3.0


class NStream(io.BytesIO):
    """io.BytesIO with the contract-view attributes pos / B / length"""

    @property
    def pos(self):
        return self.tell()

    @property
    def B(self):
        return self.getvalue()

    @property
    def length(self):
        return len(self.getvalue())

    def __repr__(self):
        return 'NStream(%r, pos=%d)' % (self.getvalue()[:64], self.tell())


class NativeUnavailable(Exception):
    pass


class Gen:
    """source of leaf values: solver model first, then seeded random"""

    def __init__(self, model, rng):
        self.model = model or {}
        self.rng = rng
        self.used_model = False
        self.streams = {}

    def get(self, name):
        for k in (name, name.replace('!h', '')):
            if k in self.model:
                self.used_model = True
                return self.model[k]
        return None

    def int(self, name, lo, hi):
        v = self.get(name)
        if isinstance(v, bool):
            v = int(v)
        if isinstance(v, int):
            return v
        r = self.rng
        lo_ = lo if lo is not None else -(2 ** 16)
        hi_ = hi if hi is not None else 2 ** 70
        c = r.random()
        if c < 0.35:
            v = r.randrange(0, 16)
        elif c < 0.55:
            v = r.randrange(0, 300)
        elif c < 0.75:
            v = 2 ** r.randrange(0, 66) + r.randrange(-2, 3)
        elif c < 0.9:
            v = r.randrange(lo_, hi_)
        else:
            v = r.choice([lo_, hi_ - 1, 0, 1, 0x7f, 0x80, 0xff, 0xffff, 0xffffffff, 2 ** 31, 2 ** 63])
        if v < lo_:
            v = lo_
        if v >= hi_:
            v = hi_ - 1
        return v


INTERESTING_BYTES = [0, 1, 0x7f, 0x80, 0x81, 0xff, 0x40, 0x3f, 0xc0, 2, 0x10]


def concrete(shape, name, g):
    if isinstance(shape, S.IntT):
        return g.int(name, shape.lo, shape.hi)
    if isinstance(shape, S.BoolT):
        v = g.get(name)
        return bool(v) if v is not None else g.rng.random() < 0.5
    if isinstance(shape, S.StrT):
        v = g.get(name)
        return v if isinstance(v, str) else g.rng.choice(['', '.text', '.stab', '.debug_info', 'x'])
    if isinstance(shape, S.CodeT):
        isn = g.get(name + '.isname')
        if isn is None:
            isn = g.rng.random() < 0.5
        if isn:
            nm = g.get(name + '.name')
            return nm if isinstance(nm, str) else g.rng.choice(['PT_LOAD', 'PT_TLS', 'SHT_NOBITS', 'SHT_NULL'])
        return g.int(name + '.raw', 0, 2 ** shape.bits)
    if isinstance(shape, S.Const):
        return shape.value
    if isinstance(shape, S.BytesT):
        return rand_bytes(name + '.arr', name + '.len', g)
    if isinstance(shape, S.StreamT):
        data = rand_bytes(name + '.B', name + '.len', g)
        s = NStream(data)
        pos = g.get(name + '.pos')
        if not isinstance(pos, int):
            pos = g.rng.choice([0, 0, 0, g.rng.randrange(0, len(data) + 2)])
        s.seek(max(0, pos))
        g.streams[name + '.B'] = s
        return s
    if isinstance(shape, S.Rec):
        from elftools.construct.lib.container import Container
        if shape.kind == 'Container':
            return Container(**{k: concrete(s, name + '.' + k, g) for k, s in shape.fields.items()})
        cls = _class_index().get(shape.kind)
        if cls is not None and hasattr(cls, '_fields'):
            return cls(**{k: concrete(s, name + '.' + k, g) for k, s in shape.fields.items()})
        raise NativeUnavailable('record kind %s' % shape.kind)
    if isinstance(shape, S.Opt):
        isn = g.get(name + '.isnone')
        if isn is None:
            isn = g.rng.random() < 0.3
        return None if isn else concrete(shape.inner, name, g)
    if isinstance(shape, S.OneOf):
        sel = g.get(name + '.sel')
        if isinstance(sel, int) and 0 <= sel < len(shape.values) - 1:
            return shape.values[sel]
        if isinstance(sel, int):
            return shape.values[-1]
        return g.rng.choice(shape.values)
    if isinstance(shape, S.Choice):
        v = g.get(name)
        return v if v in shape.values else g.rng.choice(shape.values)
    if isinstance(shape, S.OpaqueT):
        return None
    if isinstance(shape, S.StructsT):
        return make_structs(shape, name, g)
    if isinstance(shape, S.Obj):
        return make_obj(shape, name, g)
    if isinstance(shape, S.ListOf):
        n = g.get(name + '.len')
        if not isinstance(n, int):
            n = g.rng.randrange(0, 5)
        return [concrete(shape.inner, '%s[%d]' % (name, i), Gen({}, g.rng)) for i in range(min(n, 64))]
    raise NativeUnavailable('no native generator for shape %s' % type(shape).__name__)


def apply_synth(g, args):
    """write the parse results of the solver model into the concrete streams"""
    syn = (g.model or {}).get('__synth__') or []
    if not syn:
        return
    from specs import sem, k1_native
    for inst in syn:
        st = g.streams.get(inst['array'])
        if st is None:
            continue
        try:
            nf = k1_native.current_cfg_layout(inst['layout'])
            raw = sem.encode(nf, inst['fields'])
        except Exception:
            continue
        data = bytearray(st.getvalue())
        p = inst['pos']
        if p < 0 or p + len(raw) > len(data):
            continue
        data[p:p + len(raw)] = raw
        pos = st.tell()
        st.seek(0)
        st.write(bytes(data))
        st.truncate(len(data))
        st.seek(pos)


def rand_bytes(arrname, lenname, g):
    whole = g.get(arrname.rsplit('.', 1)[0])
    if isinstance(whole, (bytes, bytearray)):
        return bytes(whole)
    arr = g.get(arrname)
    n = g.get(lenname)
    if isinstance(arr, list):
        if isinstance(n, int):
            arr = (arr + [0] * n)[:n] if n <= 1 << 16 else arr
        return bytes(x & 0xff for x in arr)
    r = g.rng
    if not isinstance(n, int):
        n = r.choice([0, 1, 2, 3, 4, 5, 8, 12, 16, r.randrange(0, 80)])
    n = min(n, 1 << 16)
    mode = r.random()
    if mode < 0.5:
        return bytes(r.choice(INTERESTING_BYTES) for _ in range(n))
    return bytes(r.randrange(256) for _ in range(n))


def make_obj(shape, name, g):
    from . import calls
    cls = _class_index().get(shape.cls)
    if cls is None:
        raise NativeUnavailable('class %s' % shape.cls)
    o = cls.__new__(cls)
    for k, s in shape.attrs.items():
        if isinstance(s, S.Alias):
            continue
        try:
            setattr(o, k, concrete(s, name + '.' + k, g))
        except AttributeError:
            raise NativeUnavailable('cannot set %s.%s' % (shape.cls, k))
    for k, s in shape.attrs.items():
        if isinstance(s, S.Alias):
            v = o
            for p in s.path.split('.'):
                v = getattr(v, p) if not isinstance(v, dict) else v[p]
            setattr(o, k, v)
    return o


def make_structs(shape, name, g):
    if shape.cls == 'ELFStructs':
        from elftools.elf.structs import ELFStructs
        le = concrete(shape.attrs.get('little_endian', S.Bool), name + '.little_endian', g)
        ec = concrete(shape.attrs.get('elfclass', S.Choice(32, 64)), name + '.elfclass', g)
        st = ELFStructs(little_endian=le, elfclass=ec)
        st.create_basic_structs()
        st.create_advanced_structs(getattr(shape, 'e_type', None), getattr(shape, 'e_machine', None),
                                   getattr(shape, 'e_osabi', None))
        return st
    raise NativeUnavailable('structs %s' % shape.cls)


_ci = None


def _class_index():
    global _ci
    if _ci is None:
        from .calls import Calls
        _ci = Calls({}).class_index()
    return _ci


def real_function(c):
    mod = importlib.import_module(extract.module_name(c.relpath))
    obj = mod
    for part in c.qualname.split('.'):
        if part.startswith('<'):
            raise NativeUnavailable('nested function %s' % c.qualname)
        obj = getattr(obj, part)
    if isinstance(obj, property):
        obj = obj.fget
    return obj


# ---------------------------------------------------------------- evaluation
class _OldLift(ast.NodeTransformer):
    def __init__(self):
        self.olds = []

    def visit_Call(self, node):
        if isinstance(node.func, ast.Name) and node.func.id == 'old':
            self.olds.append(node.args[0])
            return ast.copy_location(ast.Name(id='_old_%d' % (len(self.olds) - 1), ctx=ast.Load()), node)
        return self.generic_visit(node)


def _ranges(bounds):
    rs = [range(lo, hi) for lo, hi in zip(bounds[0::2], bounds[1::2])]
    tot = 1
    for r in rs:
        tot *= max(len(r), 1)
    if tot > 200000:
        raise NativeUnavailable('quantifier range too large for native evaluation')
    return rs


def _forall(f, *bounds):
    import itertools
    return all(f(*xs) for xs in itertools.product(*_ranges(bounds)))


def _exists(f, *bounds):
    import itertools
    return any(f(*xs) for xs in itertools.product(*_ranges(bounds)))


def native_globals():
    from .contracts import SPEC_GLOBALS
    env = {}
    for n, v in SPEC_GLOBALS.items():
        if getattr(v, '_native', False):
            pyf = getattr(v, 'py', None)
            if pyf is None:
                continue
            env[n] = pyf
        else:
            env[n] = v
    env['forall'] = _forall
    env['exists'] = _exists
    return env


class Expr:
    def __init__(self, text):
        self.text = text
        tree = ast.parse(gsub(text).strip(), mode='eval')
        lift = _OldLift()
        tree = lift.visit(tree)
        ast.fix_missing_locations(tree)
        self.code = compile(tree, '<contract>', 'eval')
        self.olds = [compile(ast.fix_missing_locations(ast.Expression(o)), '<old>', 'eval') for o in lift.olds]

    def pre(self, env):
        return [eval(o, env) for o in self.olds]

    def post(self, env, olds):
        e = dict(env)
        for i, v in enumerate(olds):
            e['_old_%d' % i] = v
        return eval(self.code, e)


def snapshot(v):
    import copy
    if isinstance(v, NStream):
        return v          # streams: old(stream.pos) is lifted to a value before the call
    return v


def run_once(c, func, g, exprs):
    """one native execution under a wall-clock guard (contract evaluation included)"""
    import signal

    class _Guard(BaseException):
        pass

    def _alarm(signum, frame):
        raise _Guard()
    prev = signal.signal(signal.SIGALRM, _alarm)
    signal.setitimer(signal.ITIMER_REAL, NATIVE_TIME_LIMIT * 4)
    try:
        return _run_once(c, func, g, exprs)
    except _Guard:
        return dict(status='unavailable', why='native evaluation of the contract exceeded its time guard')
    finally:
        signal.setitimer(signal.ITIMER_REAL, 0)
        signal.signal(signal.SIGALRM, prev)


def _run_once(c, func, g, exprs):
    """one native execution.  returns dict(status=ok|skip|violation|unavailable, ...)"""
    params = c.params or {}
    try:
        args = {p: concrete(s, p, g) for p, s in params.items()}
    except NativeUnavailable as e:
        return dict(status='unavailable', why=str(e))
    except Exception as e:
        return dict(status='unavailable', why='cannot build native arguments: %r' % (e,))
    try:
        from specs import k1_native
        k1_native.set_cfg_from(list(args.values()))
        apply_synth(g, args)
    except Exception as e:
        return dict(status='unavailable', why='input synthesis failed: %r' % (e,))
    env = native_globals()
    env.update(args)
    try:
        for gname, e in c.ghost.items():
            env[gsub(gname)] = eval(compile(ast.parse(gsub(e).strip(), mode='eval'), '<ghost>', 'eval'), env)
        for r in exprs['requires']:
            if not r.post(env, r.pre(env)):
                return dict(status='skip')
        raise_pre = {cls: bool(e.post(env, e.pre(env))) for cls, e in exprs['raises'].items()}
        olds = [e.pre(env) for e in exprs['ensures']]
    except NativeUnavailable as e:
        return dict(status='unavailable', why=str(e))
    except Exception as e:
        return dict(status='unavailable', why='pre-state evaluation failed: %r' % (e,))
    inp = {k: repr_val(v) for k, v in args.items()}
    is_gen = bool(c.each_yield) or c.yield_shape is not None
    exc = None
    result = None
    import signal

    class _Timeout(BaseException):
        pass

    def _alarm(signum, frame):
        raise _Timeout()
    prev = signal.signal(signal.SIGALRM, _alarm)
    outer_left = signal.setitimer(signal.ITIMER_REAL, NATIVE_TIME_LIMIT)[0]
    try:
        try:
            result = func(**args)
            if is_gen or hasattr(result, '__next__'):
                import itertools
                result = list(itertools.islice(result, 200000))
        finally:
            signal.signal(signal.SIGALRM, prev)
            signal.setitimer(signal.ITIMER_REAL, max(outer_left, 0.5))
    except _Timeout:
        return dict(status='violation', clause='termination', input=inp,
                    observed='the real function did not return within %.0f s on this input' % NATIVE_TIME_LIMIT,
                    expected='termination (variant)')
    except MemoryError:
        return dict(status='skip')
    except Exception as e:
        exc = e
    from .interp import EXC_CLASSES
    if exc is not None:
        name = type(exc).__name__
        for cls, pre in raise_pre.items():
            k = EXC_CLASSES.get(cls)
            if k is not None and isinstance(exc, k):
                if pre:
                    return dict(status='ok')
                return dict(status='violation', clause='raises-only-if[%s]' % cls, input=inp,
                            observed='raised %s: %s' % (name, exc), expected='no %s for this input' % cls)
        for cls in c.may_raise:
            k = EXC_CLASSES.get(cls)
            if k is not None and isinstance(exc, k):
                return dict(status='ok')
        return dict(status='violation', clause='safety:no-%s' % name, input=inp,
                    observed='raised %s: %s' % (name, exc), expected='no exception outside the raises clause')
    for cls, pre in raise_pre.items():
        if pre:
            return dict(status='violation', clause='raises-iff[%s]' % cls, input=inp,
                        observed='returned %s' % repr_val(result), expected='raise %s' % cls)
    if is_gen:
        env['_G_n'] = len(result)
        try:
            for k, v in enumerate(result):
                e2 = dict(env)
                e2['value'] = v
                e2['_G_n'] = k
                for i, e in enumerate(exprs['each_yield']):
                    if not e.post(e2, e.pre(e2)):
                        return dict(status='violation', clause='yield:%d' % i, input=inp,
                                    observed='yield #%d = %s' % (k, repr_val(v)), expected=e.text)
        except Exception as ex:
            return dict(status='unavailable', why='yield evaluation failed: %r' % (ex,))
    env['result'] = result
    for i, (e, o) in enumerate(zip(exprs['ensures'], olds)):
        try:
            ok = e.post(env, o)
        except Exception as ex:
            return dict(status='unavailable', why='post-state evaluation failed: %r in %s' % (ex, e.text))
        if not ok:
            return dict(status='violation', clause='post:%d' % i, input=inp, observed='result = %s' % repr_val(result),
                        expected=e.text)
    return dict(status='ok')


def repr_val(v, depth=0):
    if isinstance(v, NStream):
        return 'stream(bytes=%s, pos=%d)' % (v.getvalue()[:256].hex(), v.tell())
    if isinstance(v, (bytes, bytearray)):
        return 'bytes.fromhex(%r)' % bytes(v[:256]).hex()
    if isinstance(v, (int, str, bool, type(None))):
        return repr(v)
    if isinstance(v, (list, tuple)) and depth < 3:
        return '[%s]' % ', '.join(repr_val(x, depth + 1) for x in v[:16])
    d = getattr(v, '__dict__', None)
    if d is not None and depth < 3:
        return '%s(%s)' % (type(v).__name__, ', '.join('%s=%s' % (k, repr_val(x, depth + 1))
                                                       for k, x in list(d.items())[:24]))
    return repr(v)[:200]


def compile_exprs(c):
    ens = list(c.ensures)
    if getattr(c, 'result_expr', None):
        ens.append('result == (%s)' % c.result_expr)
    return dict(requires=[Expr(r) for r in list(c.requires) + list(getattr(c, 'native_requires', []))], ensures=[Expr(e) for e in ens],
                raises={k: Expr(v) for k, v in c.raises.items()}, each_yield=[Expr(e) for e in c.each_yield])


def clause_of(obname):
    """map an obligation name to the native clause id"""
    m = re.search(r':(post)@\+\d+:(\d+)$', obname)
    if m:
        return 'post:%s' % m.group(2)
    m = re.search(r':(yield)@\+\d+:(\d+)$', obname)
    if m:
        return 'yield:%s' % m.group(2)
    m = re.search(r':(raises-iff\[\w+\]|raises-only-if\[\w+\]|safety:no-[\w.]+)@', obname)
    if m:
        return m.group(1)
    if ':variant@' in obname:
        return 'termination'
    return None


def post_process(c, d, tier):
    """replay counterexamples natively; bounded concrete search; cross-check"""
    seed = int(os.environ.get('VERIF_SEED', '0') or 0)
    try:
        func = real_function(c)
        exprs = compile_exprs(c)
    except NativeUnavailable as e:
        d['native'] = dict(available=False, why=str(e))
        return
    except Exception as e:
        d['native'] = dict(available=False, why='setup failed: %r' % (e,))
        return
    obs = d['obligations']
    bad = [o for o in obs if o['verdict'] in ('refuted', 'undecided')]
    stats = dict(available=True, runs=0, ok=0, skip=0, violations=0, unavailable=0)
    found = {}          # clause -> violation record

    import time as _time
    t_start = _time.time()
    budget = 25.0 if tier == 'quick' else 240.0

    def exhausted():
        return _time.time() - t_start > budget or 'termination' in found

    def attempt(model, rng):
        if exhausted():
            return dict(status='skip')
        g = Gen(model, rng)
        r = run_once(c, func, g, exprs)
        stats['runs'] += 1
        st = r['status']
        if st == 'violation':
            stats['violations'] += 1
            found.setdefault(r['clause'], r)
        elif st == 'ok':
            stats['ok'] += 1
        elif st == 'skip':
            stats['skip'] += 1
        else:
            stats['unavailable'] += 1
            stats['why'] = r.get('why')
        return r
    rng = random.Random(seed * 1000003 + sum(map(ord, c.qualname)) % 1000)
    # (0) inputs recorded in the contract as historically interesting
    for sd in getattr(c, 'native_seeds', []):
        attempt(dict(sd), rng)
    # (a) replay models
    for o in bad:
        m = o.get('model') or o.get('candidate_model')
        if m:
            r = attempt(m, rng)
            if r['status'] == 'violation':
                o['native'] = dict(confirmed=True, how='solver model replayed on the real function', **r)
            if stats.get('unavailable') and stats['runs'] == stats['unavailable']:
                break
    # (b)/(c) random + boundary search through the executable contract
    n = 300 if tier == 'quick' else 5000
    if bad:
        n *= 4
    if stats['runs'] == 0 or stats['unavailable'] < stats['runs']:
        for i in range(n):
            if exhausted():
                break
            r = attempt(None, rng)
            if r['status'] == 'unavailable':
                break
    # attach search results to failing obligations that have no confirmed replay
    for o in bad:
        if o.get('native', {}).get('confirmed'):
            continue
        cl = clause_of(o['name'])
        hit = found.get(cl) if cl else None
        if hit is None and o['kind'] in ('inv-pres', 'inv-init', 'variant', 'call-pre') and found:
            hit = list(found.values())[0]
        if hit is not None:
            o['native'] = dict(confirmed=True, how='bounded concrete search through the executable contract '
                                                   '(solver model was not a reachable input)', **hit)
    # an undecided obligation with a real failing input is a violation
    for o in bad:
        if o['verdict'] == 'undecided' and o.get('native', {}).get('confirmed'):
            o['verdict'] = 'refuted'
            o['solver_output'] = 'solver: unknown (%s); violation established by native failing input' % o.get('reason')
    d['native'] = stats
    # cross-check: everything proved but the real function violates the executable contract
    if not bad and found:
        r = list(found.values())[0]
        d['error'] = ('native cross-check: all obligations proved but the real function violates clause %s on input %s '
                      '(observed %s) -- encoder or contract unsound' % (r['clause'], r['input'], r['observed']))
    for o in obs:
        o.pop('smt2', None)


def replay_file(path):
    rep = json.load(open(path))
    print(json.dumps(rep, indent=1)[:4000])
    nat = rep.get('native') or {}
    return 1 if nat.get('confirmed') else 0
