"""Extraction of the verified text from /repo's current working tree.
Every run re-reads the file; nothing of the repository is copied into /verif."""
import ast
import hashlib
import os

REPO = os.environ.get('VERIF_REPO', '/repo')

_cache = {}


class ExtractError(Exception):
    pass


def load(relpath):
    path = os.path.join(REPO, relpath)
    if path not in _cache:
        try:
            src = open(path).read()
        except OSError as e:
            raise ExtractError('cannot read %s: %s' % (path, e))
        try:
            tree = ast.parse(src)
        except SyntaxError as e:
            raise ExtractError('cannot parse %s: %s' % (path, e))
        _cache[path] = (src, tree)
    return _cache[path]


def find(relpath, qualname):
    """qualname: 'func', 'Class.method', 'outer.<locals>.inner',
    'outer.<lambda>N' (N-th lambda inside outer, in source order)."""
    src, tree = load(relpath)
    node = tree
    parts = [p for p in qualname.split('.') if p != '<locals>']
    for part in parts:
        if part.startswith('<lambda>'):
            idx = int(part[len('<lambda>'):] or 0)
            lams = sorted([n for n in ast.walk(node) if isinstance(n, ast.Lambda)],
                          key=lambda n: (n.lineno, n.col_offset))
            if idx >= len(lams):
                raise ExtractError('%s: no lambda #%d in %s' % (relpath, idx, qualname))
            node = lams[idx]
            continue
        found = None
        body = node.body if hasattr(node, 'body') else []
        # direct children first, then any nested statement bodies (if/try at class level)
        for n in _iter_defs(body):
            if n.name == part:
                found = n
                break
        if found is None:
            raise ExtractError('%s: %s not found (looking for %s)' % (relpath, part, qualname))
        node = found
    return node


def _iter_defs(body):
    for n in body:
        if isinstance(n, (ast.FunctionDef, ast.ClassDef, ast.AsyncFunctionDef)):
            yield n
        elif isinstance(n, (ast.If, ast.Try, ast.With, ast.For, ast.While)):
            for fld in ('body', 'orelse', 'finalbody'):
                for m in _iter_defs(getattr(n, fld, []) or []):
                    yield m
            for h in getattr(n, 'handlers', []) or []:
                for m in _iter_defs(h.body):
                    yield m
        else:
            # nested defs inside a function body at statement level handled above;
            pass


def source_of(relpath, node):
    src, _ = load(relpath)
    return ast.get_source_segment(src, node) or ''


def body_hash(relpath, node):
    """hash of the function text with docstring and comments dropped (ast dump)"""
    d = ast.dump(strip_doc(node), include_attributes=False)
    return hashlib.sha256(d.encode()).hexdigest()[:16]


def strip_doc(node):
    import copy
    n = copy.deepcopy(node)
    for sub in ast.walk(n):
        b = getattr(sub, 'body', None)
        if isinstance(b, list) and b and isinstance(b[0], ast.Expr) and \
                isinstance(b[0].value, ast.Constant) and isinstance(b[0].value.value, str):
            if len(b) > 1:
                sub.body = b[1:]
            else:
                sub.body = [ast.Pass()]
    return n


def loops_of(node):
    """loops of a function in source order, nested defs included"""
    ls = [n for n in ast.walk(node) if isinstance(n, (ast.For, ast.While))]
    ls.sort(key=lambda n: (n.lineno, n.col_offset))
    return ls


def comps_of(node):
    """list comprehensions / generator expressions of a function in source order"""
    cs = [n for n in ast.walk(node) if isinstance(n, (ast.ListComp, ast.GeneratorExp))]
    cs.sort(key=lambda n: (n.lineno, n.col_offset))
    return cs


def module_name(relpath):
    assert relpath.endswith('.py')
    return relpath[:-3].replace('/', '.')
