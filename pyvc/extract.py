"""Extraction of the verified text from /repo's current working tree.
Every run re-reads the file; nothing of the repository is copied into /verif."""
import ast
import hashlib
import os

REPO = os.environ.get('VERIF_REPO', '/repo')

_cache = {}


class ExtractError(Exception):
    pass


def load(relpath):
    path = os.path.join(REPO, relpath)
    if path not in _cache:
        try:
            src = open(path).read()
        except OSError as e:
            raise ExtractError('cannot read %s: %s' % (path, e))
        try:
            tree = ast.parse(src)
        except SyntaxError as e:
            raise ExtractError('cannot parse %s: %s' % (path, e))
        _cache[path] = (src, tree)
    return _cache[path]


def find(relpath, qualname):
    """qualname: 'func', 'Class.method', 'outer.<locals>.inner',
    'outer.<lambda>N' (N-th lambda inside outer, in source order)."""
    src, tree = load(relpath)
    node = tree
    parts = [p for p in qualname.split('.') if p != '<locals>']
    for part in parts:
        if part.startswith('<lambda>'):
            idx = int(part[len('<lambda>'):] or 0)
            lams = sorted([n for n in ast.walk(node) if isinstance(n, ast.Lambda)],
                          key=lambda n: (n.lineno, n.col_offset))
            if idx >= len(lams):
                raise ExtractError('%s: no lambda #%d in %s' % (relpath, idx, qualname))
            node = lams[idx]
            continue
        found = None
        body = node.body if hasattr(node, 'body') else []
        # direct children first, then any nested statement bodies (if/try at class level)
        for n in _iter_defs(body):
            if n.name == part:
                found = n
                break
        if found is None:
            raise ExtractError('%s: %s not found (looking for %s)' % (relpath, part, qualname))
        node = found
    return node


def _iter_defs(body):
    for n in body:
        if isinstance(n, (ast.FunctionDef, ast.ClassDef, ast.AsyncFunctionDef)):
            yield n
        elif isinstance(n, (ast.If, ast.Try, ast.With, ast.For, ast.While)):
            for fld in ('body', 'orelse', 'finalbody'):
                for m in _iter_defs(getattr(n, fld, []) or []):
                    yield m
            for h in getattr(n, 'handlers', []) or []:
                for m in _iter_defs(h.body):
                    yield m
        else:
            # nested defs inside a function body at statement level handled above;
            pass


def source_of(relpath, node):
    src, _ = load(relpath)
    return ast.get_source_segment(src, node) or ''


def body_hash(relpath, node):
    """hash of the function text with docstring and comments dropped (ast dump)"""
    d = ast.dump(strip_doc(node), include_attributes=False)
    return hashlib.sha256(d.encode()).hexdigest()[:16]


def alpha_form(node):
    """(hash, local names in canonical order) of the function with its local variables renamed to v0, v1, ... in order of
    first occurrence: two functions with the same hash differ only by a consistent renaming of locals (parameters, attributes,
    globals and keywords keep their names).  Used to let a contract written against the committed baseline follow a renamed
    local: a harmless edit."""
    n = strip_doc(node)
    params = set()
    a = n.args
    for x in a.posonlyargs + a.args + a.kwonlyargs + ([a.vararg] if a.vararg else []) + ([a.kwarg] if a.kwarg else []):
        params.add(x.arg)
    local = set()
    for sub in ast.walk(n):
        if isinstance(sub, ast.Name) and isinstance(sub.ctx, (ast.Store, ast.Del)) and sub.id not in params:
            local.add(sub.id)
        elif isinstance(sub, ast.ExceptHandler) and sub.name:
            local.add(sub.name)
        elif isinstance(sub, (ast.Global, ast.Nonlocal)):
            for g in sub.names:
                local.discard(g)
    order = []

    class V(ast.NodeTransformer):
        def visit_Name(self, x):
            if x.id in local:
                if x.id not in order:
                    order.append(x.id)
                x.id = 'v%d' % order.index(x.id)
            return x

        def visit_ExceptHandler(self, x):
            self.generic_visit(x)
            if x.name in local:
                if x.name not in order:
                    order.append(x.name)
                x.name = 'v%d' % order.index(x.name)
            return x
    V().visit(n)
    return hashlib.sha256(ast.dump(n, include_attributes=False).encode()).hexdigest()[:16], order


def strip_doc(node):
    import copy
    n = copy.deepcopy(node)
    for sub in ast.walk(n):
        b = getattr(sub, 'body', None)
        if isinstance(b, list) and b and isinstance(b[0], ast.Expr) and \
                isinstance(b[0].value, ast.Constant) and isinstance(b[0].value.value, str):
            if len(b) > 1:
                sub.body = b[1:]
            else:
                sub.body = [ast.Pass()]
    return n


def loops_of(node):
    """loops of a function in source order, nested defs included"""
    ls = [n for n in ast.walk(node) if isinstance(n, (ast.For, ast.While))]
    ls.sort(key=lambda n: (n.lineno, n.col_offset))
    return ls


def comps_of(node):
    """list comprehensions / generator expressions of a function in source order"""
    cs = [n for n in ast.walk(node) if isinstance(n, (ast.ListComp, ast.GeneratorExp))]
    cs.sort(key=lambda n: (n.lineno, n.col_offset))
    return cs


def module_name(relpath):
    assert relpath.endswith('.py')
    return relpath[:-3].replace('/', '.')
